// instr rewrites a SCRATCH COPY of vogo/gohessian (never /repo itself) so that the
// simulator owns the nondeterminism the properties depend on:
//
//  1. before every statement of every function body / case body / select-comm body of the
//     non-test files of the root package it inserts `_vfStep(<site>); ` ON THE SAME LINE,
//     so line numbers (which the library embeds in its error texts) are unchanged;
//  2. every `X.MapKeys()` becomes `_vfMapKeys(X.MapKeys())`;
//  3. it writes zz_vf_hooks.go with the two hook variables (nil by default = no-ops) and
//     the site table.
//
// Usage: instr <dir>      (stdlib only; exit 2 on any parse/write problem)
package main

import (
	"bytes"
	"fmt"
	"go/ast"
	"go/parser"
	"go/token"
	"os"
	"path/filepath"
	"sort"
	"strings"
)

type insertion struct {
	off  int
	text string
	// order among insertions at the same offset: lower first
	ord int
	// del bytes of the original are dropped at off (after inserting text)
	del int
}

type site struct {
	id   int
	file string
	line int
	fn   string
	kind string
}

func die(format string, a ...interface{}) {
	fmt.Fprintf(os.Stderr, "instr: "+format+"\n", a...)
	os.Exit(2)
}

func main() {
	if len(os.Args) != 2 {
		die("usage: instr <dir>")
	}
	dir := os.Args[1]
	entries, err := os.ReadDir(dir)
	if err != nil {
		die("%v", err)
	}
	var files []string
	for _, e := range entries {
		n := e.Name()
		if e.IsDir() || !strings.HasSuffix(n, ".go") || strings.HasSuffix(n, "_test.go") || strings.HasPrefix(n, "zz_vf_") {
			continue
		}
		files = append(files, n)
	}
	sort.Strings(files)
	if len(files) == 0 {
		die("no go files in %s", dir)
	}
	var sites []site
	pkgName := ""
	mapKeysWrapped := 0
	locksRewritten := 0
	noLocks := os.Getenv("INSTR_NOLOCKS") != ""
	for _, name := range files {
		path := filepath.Join(dir, name)
		src, err := os.ReadFile(path)
		if err != nil {
			die("%v", err)
		}
		fset := token.NewFileSet()
		f, err := parser.ParseFile(fset, path, src, parser.ParseComments)
		if err != nil {
			die("parse %s: %v", name, err)
		}
		if pkgName == "" {
			pkgName = f.Name.Name
		} else if pkgName != f.Name.Name {
			die("mixed packages %s / %s", pkgName, f.Name.Name)
		}
		var ins []insertion
		curFn := "?"
		addStmts := func(list []ast.Stmt, kind string) {
			for _, st := range list {
				id := len(sites)
				pos := fset.Position(st.Pos())
				sites = append(sites, site{id: id, file: name, line: pos.Line, fn: curFn, kind: stmtKind(st, kind)})
				ins = append(ins, insertion{off: pos.Offset, text: fmt.Sprintf("_vfStep(%d); ", id), ord: 0})
				// `defer X.Unlock()`: the release is reported when the deferred call runs
				if ds, ok := st.(*ast.DeferStmt); ok && !noLocks && len(ds.Call.Args) == 0 {
					if sel, ok := ds.Call.Fun.(*ast.SelectorExpr); ok && (sel.Sel.Name == "Unlock" || sel.Sel.Name == "RUnlock") {
						ins = append(ins, insertion{off: fset.Position(ds.Call.Pos()).Offset, text: "func() { _vfLockReleased(); ", ord: 1})
						ins = append(ins, insertion{off: fset.Position(ds.Call.End()).Offset, text: " }()", ord: -2})
					}
				}
				// `X.Lock()` / `X.RLock()` as a statement becomes a cooperative try-lock loop, so that a
				// task preempted inside a critical section does not hang the (single-threaded) simulation
				if es, ok := st.(*ast.ExprStmt); ok && !noLocks {
					if call, ok := es.X.(*ast.CallExpr); ok && len(call.Args) == 0 {
						if sel, ok := call.Fun.(*ast.SelectorExpr); ok && (sel.Sel.Name == "Lock" || sel.Sel.Name == "RLock") {
							try := "TryLock"
							if sel.Sel.Name == "RLock" {
								try = "TryRLock"
							}
							ins = append(ins, insertion{off: pos.Offset, text: "for !", ord: 1})
							selOff := fset.Position(sel.Sel.Pos()).Offset
							endOff := fset.Position(call.End()).Offset
							ins = append(ins, insertion{off: selOff, text: try + "() { _vfBlocked() }; _vfLockTaken()", ord: 0, del: endOff - selOff})
							locksRewritten++
						}
					}
					// `X.Unlock()` / `X.RUnlock()` as a statement: tell the simulator first
					if call, ok := es.X.(*ast.CallExpr); ok && len(call.Args) == 0 {
						if sel, ok := call.Fun.(*ast.SelectorExpr); ok && (sel.Sel.Name == "Unlock" || sel.Sel.Name == "RUnlock") {
							ins = append(ins, insertion{off: pos.Offset, text: "_vfLockReleased(); ", ord: 1})
						}
					}
					// `X.Do(f)` as a statement (sync.Once): callers that arrive while another task is inside Do
					// block on a mutex inside package sync, which the simulation cannot see. The call is
					// bracketed by enter / exit hooks so that the scheduler serialises Do sections cooperatively.
					if call, ok := es.X.(*ast.CallExpr); ok && len(call.Args) == 1 {
						if sel, ok := call.Fun.(*ast.SelectorExpr); ok && sel.Sel.Name == "Do" {
							ins = append(ins, insertion{off: pos.Offset, text: "func() { _vfOnceEnter(); defer _vfOnceExit(); ", ord: 1})
							ins = append(ins, insertion{off: fset.Position(call.End()).Offset, text: " }()", ord: -2})
							locksRewritten++
						}
					}
				}
			}
		}
		var walk func(n ast.Node)
		walkBody := func(b *ast.BlockStmt) {
			if b == nil {
				return
			}
			addStmts(b.List, "")
			for _, st := range b.List {
				walk(st)
			}
		}
		walk = func(n ast.Node) {
			ast.Inspect(n, func(x ast.Node) bool {
				switch v := x.(type) {
				case *ast.FuncDecl:
					if v.Body == nil {
						return false
					}
					old := curFn
					curFn = funcName(v)
					walkBody(v.Body)
					curFn = old
					return false
				case *ast.FuncLit:
					old := curFn
					curFn = curFn + ".func"
					walkBody(v.Body)
					curFn = old
					return false
				case *ast.SwitchStmt:
					if v.Init != nil {
						walk(v.Init)
					}
					if v.Tag != nil {
						walk(v.Tag)
					}
					for _, c := range v.Body.List {
						walk(c)
					}
					return false
				case *ast.TypeSwitchStmt:
					if v.Init != nil {
						walk(v.Init)
					}
					walk(v.Assign)
					for _, c := range v.Body.List {
						walk(c)
					}
					return false
				case *ast.SelectStmt:
					for _, c := range v.Body.List {
						walk(c)
					}
					return false
				case *ast.CaseClause:
					for _, e := range v.List {
						walk(e)
					}
					addStmts(v.Body, "case")
					for _, st := range v.Body {
						walk(st)
					}
					return false
				case *ast.CommClause:
					if v.Comm != nil {
						walk(v.Comm)
					}
					addStmts(v.Body, "comm")
					for _, st := range v.Body {
						walk(st)
					}
					return false
				case *ast.BlockStmt:
					walkBody(v)
					return false
				case *ast.CallExpr:
					if sel, ok := v.Fun.(*ast.SelectorExpr); ok && sel.Sel.Name == "MapKeys" && len(v.Args) == 0 {
						ins = append(ins, insertion{off: fset.Position(v.Pos()).Offset, text: "_vfMapKeys(", ord: 1})
						ins = append(ins, insertion{off: fset.Position(v.End()).Offset, text: ")", ord: -1})
						mapKeysWrapped++
					}
					// X.MapRange() -> _vfMapRange(X): an iterator over the seeded key order
					if sel, ok := v.Fun.(*ast.SelectorExpr); ok && sel.Sel.Name == "MapRange" && len(v.Args) == 0 && !noLocks {
						ins = append(ins, insertion{off: fset.Position(v.Pos()).Offset, text: "_vfMapRange(", ord: 1})
						selOff := fset.Position(sel.X.End()).Offset
						endOff := fset.Position(v.End()).Offset
						ins = append(ins, insertion{off: selOff, text: ")", ord: -1, del: endOff - selOff})
						mapKeysWrapped++
					}
					return true
				}
				return true
			})
		}
		for _, d := range f.Decls {
			walk(d)
		}
		sort.SliceStable(ins, func(i, j int) bool {
			if ins[i].off != ins[j].off {
				return ins[i].off < ins[j].off
			}
			return ins[i].ord < ins[j].ord
		})
		var out bytes.Buffer
		last := 0
		for _, in := range ins {
			if in.off < last {
				die("overlapping rewrite in %s", name)
			}
			out.Write(src[last:in.off])
			out.WriteString(in.text)
			last = in.off + in.del
		}
		out.Write(src[last:])
		// the result must still parse
		if _, err := parser.ParseFile(token.NewFileSet(), path, out.Bytes(), 0); err != nil {
			die("instrumented %s does not parse: %v", name, err)
		}
		if err := os.WriteFile(path, out.Bytes(), 0o644); err != nil {
			die("%v", err)
		}
	}

	var hb bytes.Buffer
	fmt.Fprintf(&hb, "// Code generated by /verif/instr. DO NOT EDIT.\n\npackage %s\n\nimport (\n\t\"reflect\"\n\t\"runtime\"\n)\n\n", pkgName)
	hb.WriteString(`// VfBlocked, when non-nil, is called when a try-lock loop could not take its lock (simulation only).
var VfBlocked func()

//go:norace
func _vfBlocked() {
	if f := VfBlocked; f != nil {
		f()
		return
	}
	runtime.Gosched()
}

// VfLockTaken / VfLockReleased, when non-nil, report cooperative lock acquisition and release (simulation only).
var VfLockTaken, VfLockReleased func()

//go:norace
func _vfLockTaken() {
	if f := VfLockTaken; f != nil {
		f()
	}
}

//go:norace
func _vfLockReleased() {
	if f := VfLockReleased; f != nil {
		f()
	}
}

// VfOnceEnter / VfOnceExit, when non-nil, bracket every X.Do(f) statement (simulation only).
var VfOnceEnter, VfOnceExit func()

//go:norace
func _vfOnceEnter() {
	if f := VfOnceEnter; f != nil {
		f()
	}
}

//go:norace
func _vfOnceExit() {
	if f := VfOnceExit; f != nil {
		f()
	}
}

// VfStep, when non-nil, is called before every statement of the library (simulation only).
var VfStep func(int32)

// VfMapKeys, when non-nil, decides the order in which map keys are visited (simulation only).
var VfMapKeys func([]reflect.Value) []reflect.Value

//go:norace
func _vfStep(s int32) {
	if f := VfStep; f != nil {
		f(s)
	}
}

func _vfMapKeys(k []reflect.Value) []reflect.Value {
	if f := VfMapKeys; f != nil {
		return f(k)
	}
	return k
}

// _vfMapIter mirrors reflect.MapIter over the seeded key order.
type _vfMapIter struct {
	m    reflect.Value
	keys []reflect.Value
	i    int
}

func _vfMapRange(m reflect.Value) *_vfMapIter {
	return &_vfMapIter{m: m, keys: _vfMapKeys(m.MapKeys()), i: -1}
}

func (it *_vfMapIter) Next() bool           { it.i++; return it.i < len(it.keys) }
func (it *_vfMapIter) Key() reflect.Value   { return it.keys[it.i] }
func (it *_vfMapIter) Value() reflect.Value { return it.m.MapIndex(it.keys[it.i]) }

// VfSite describes one instrumented statement.
type VfSite struct {
	File string
	Line int
	Func string
	Kind string
}

`)
	fmt.Fprintf(&hb, "// VfLocksRewritten is the number of Lock()/RLock() statements made cooperative.\nconst VfLocksRewritten = %d\n\n", locksRewritten)
	fmt.Fprintf(&hb, "// VfMapKeysWrapped is the number of MapKeys() calls wrapped.\nconst VfMapKeysWrapped = %d\n\n", mapKeysWrapped)
	hb.WriteString("// VfSites is the site table, indexed by site id.\nvar VfSites = []VfSite{\n")
	for _, s := range sites {
		fmt.Fprintf(&hb, "\t{%q, %d, %q, %q},\n", s.file, s.line, s.fn, s.kind)
	}
	hb.WriteString("}\n")
	if err := os.WriteFile(filepath.Join(dir, "zz_vf_hooks.go"), hb.Bytes(), 0o644); err != nil {
		die("%v", err)
	}
	fmt.Printf("instr: %d files, %d step sites, %d MapKeys wrapped, %d lock statements made cooperative\n", len(files), len(sites), mapKeysWrapped, locksRewritten)
}

func funcName(f *ast.FuncDecl) string {
	if f.Recv != nil && len(f.Recv.List) == 1 {
		t := f.Recv.List[0].Type
		if s, ok := t.(*ast.StarExpr); ok {
			t = s.X
		}
		if id, ok := t.(*ast.Ident); ok {
			return id.Name + "." + f.Name.Name
		}
	}
	return f.Name.Name
}

func stmtKind(st ast.Stmt, ctx string) string {
	k := ""
	switch st.(type) {
	case *ast.SelectStmt:
		k = "select"
	case *ast.ReturnStmt:
		k = "return"
	case *ast.IfStmt:
		k = "if"
	case *ast.ForStmt, *ast.RangeStmt:
		k = "for"
	case *ast.SendStmt:
		k = "send"
	case *ast.AssignStmt:
		k = "assign"
	case *ast.ExprStmt:
		k = "expr"
	default:
		k = "stmt"
	}
	if ctx != "" {
		return ctx + "/" + k
	}
	return k
}
