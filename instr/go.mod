module verif/instr

go 1.23
