#!/bin/bash
# seeds.sh [seed ...]   false-alarm hunt: every quick check on the UNCHANGED tree under other seeds; any
# exit code other than 0 is printed (a VIOLATION here is either a genuine defect or a false alarm to analyse).
set -u
VERIF="$(cd "$(dirname "$0")/.." && pwd)"; cd "$VERIF"
SEEDS=("$@"); [ ${#SEEDS[@]} -eq 0 ] && SEEDS=(1 2 3 4 5)
bad=0
for s in "${SEEDS[@]}"; do
  for p in C06 C11 C12 C14 C15 C17; do
    out="$(VERIF_SEED=$s bin/check $p ${TIER:-quick} -no-evidence 2>&1)"; rc=$?
    if [ $rc -ne 0 ]; then bad=1; echo "seed $s $p: exit $rc"; echo "$out" | grep -E "^violation|^VIOLATION|^sup:" | head -5 | cut -c1-400; else echo "seed $s $p: ok"; fi
  done
done
exit $bad
