#!/bin/bash
# all_quick.sh: every quick check on the unchanged tree without touching the evidence files; run before
# committing any change to a shared generator, seam or oracle. Exit 1 if any check does not exit 0.
cd "$(dirname "$0")/.."
bad=0
for p in C06 C11 C12 C14 C15 C17; do
  out=$(bin/check $p quick -no-evidence 2>&1); rc=$?
  echo "$p rc=$rc $(echo "$out" | grep -E '^runs=|^violation|^sup:' | head -2 | cut -c1-150)"
  [ $rc -ne 0 ] && bad=1
done
exit $bad
