#!/bin/bash
# sensitivity.sh [patch ...]   (default: every mutants/*.patch)
# For each mutant patch (name: <prop>-<what>.patch, lower-case property id prefix): apply it to a scratch
# copy of /repo, require that the repository's own test suite still passes, then require that the quick
# check of the property reports a VIOLATION (exit 1) with a replay file that reproduces.
# Mutants named ok-<prop>-*.patch are behaviour-preserving edits: the check must stay at exit 0.
set -u
VERIF="$(cd "$(dirname "$0")/.." && pwd)"
export GOFLAGS=-mod=mod GOPROXY=off GOSUMDB=off GOTOOLCHAIN=local
cd "$VERIF"
PATCHES=("$@"); [ ${#PATCHES[@]} -eq 0 ] && PATCHES=(mutants/*.patch)
fail=0
for p in "${PATCHES[@]}"; do
  name="$(basename "$p" .patch)"
  want=1; base="$name"
  case "$name" in ok-*) want=0; base="${name#ok-}";; esac
  prop="$(echo "${base%%-*}" | tr a-z A-Z)"
  S="$(mktemp -d /tmp/verif-mut-XXXXXX)"
  rsync -a --exclude .git /repo/ "$S/repo"/
  if ! (cd "$S/repo" && patch -p0 -s < "$VERIF/$p" >/dev/null 2>&1 || patch -p1 -s < "$VERIF/$p" >/dev/null 2>&1); then
    echo "MUTANT $name: patch does not apply"; fail=1; rm -rf "$S"; continue
  fi
  if ! (cd "$S/repo" && go test -mod=mod -vet=off -count=1 . >/dev/null 2>&1); then
    echo "MUTANT $name: repository tests FAIL with the patch (not a valid mutant)"; fail=1; rm -rf "$S"; continue
  fi
  t0=$(date +%s)
  out="$(VERIF_REPO="$S/repo" bin/check "$prop" quick -no-evidence 2>&1)"; rc=$?
  t1=$(date +%s)
  line="$(echo "$out" | grep -m1 '^violation class' || true)"
  if [ $rc -eq $want ]; then
    echo "MUTANT $name: OK (exit $rc, $((t1-t0))s) $line"
  else
    echo "MUTANT $name: UNEXPECTED exit $rc (want $want, $((t1-t0))s) $line"; echo "$out" | tail -5; fail=1
  fi
  rep="$(echo "$out" | sed -n 's/^VIOLATION property=[A-Z0-9]* replay=//p' | head -1)"
  [ -n "$rep" ] && rm -f "$rep"
  rm -rf "$S"
done
exit $fail
