#!/bin/bash
# confirm_seeded.sh <worktree-or-seeded-dir> <PROP> [go test extra flags for the demo, e.g. -race]
# Confirms a seeded change independently: (a) suite passes with the patch, (b) demo fails with it,
# (c) demo passes without it; then runs the quick check of <PROP> against the patched copy.
set -u
SRC="$(cd "$1" && pwd)"; PROP="$2"; shift 2; DEMOFLAGS="$*"
VERIF="$(cd "$(dirname "$0")/.." && pwd)"
export GOFLAGS=-mod=mod GOPROXY=off GOSUMDB=off GOTOOLCHAIN=local
S="$(mktemp -d /tmp/verif-seed-XXXXXX)"; trap 'rm -rf "$S"' EXIT
mkdir "$S/with" "$S/without"
rsync -a --exclude .git /repo/ "$S/with"/; rsync -a --exclude .git /repo/ "$S/without"/
(cd "$S/with" && git init -q . >/dev/null 2>&1; git apply "$SRC/patch.diff") || { echo "patch does not apply"; exit 2; }
(cd "$S/with" && go test -mod=mod -vet=off -count=1 ./... >"$S/a.log" 2>&1) && echo "(a) suite passes with the patch" || { echo "(a) SUITE FAILS with the patch"; tail -5 "$S/a.log"; }
demo="$(ls "$SRC"/zz_demo*_test.go 2>/dev/null | head -1)"
cp "$demo" "$S/with"/; cp "$demo" "$S/without"/
(cd "$S/with" && go test -mod=mod -vet=off -count=1 $DEMOFLAGS -run 'Demo|ZZ|Zz' . >"$S/b.log" 2>&1) && echo "(b) DEMO PASSES with the patch (not confirmed)" || echo "(b) demo fails with the patch: $(grep -m2 -E '^\s+zz_demo|--- FAIL|DATA RACE|panic' "$S/b.log" | tr '\n' ' ' | cut -c1-200)"
(cd "$S/without" && go test -mod=mod -vet=off -count=1 $DEMOFLAGS -run 'Demo|ZZ|Zz' . >"$S/c.log" 2>&1) && echo "(c) demo passes without the patch" || { echo "(c) DEMO FAILS without the patch"; tail -5 "$S/c.log"; }
rm -f "$S/with"/zz_demo*_test.go
t0=$(date +%s)
out="$(cd "$VERIF" && VERIF_REPO="$S/with" bin/check "$PROP" quick -no-evidence 2>&1)"; rc=$?
t1=$(date +%s)
echo "(d) bin/check $PROP quick against the patched copy: exit $rc in $((t1-t0))s"
echo "$out" | grep -A2 -m1 '^violation class' | cut -c1-600
rep="$(echo "$out" | sed -n 's/^VIOLATION property=[A-Z0-9]* replay=//p' | head -1)"
[ -n "$rep" ] && rm -f "$rep"
exit 0
