#!/bin/bash
# determinism.sh [runs-per-engine]   (default 200)
# For every engine: the same run indices are executed in 9 fresh processes (3 each at GOMAXPROCS 1, 4, 16);
# the per-run fingerprints (hash of the event log: scheduler decisions, fault firings, op events) must be
# identical in all of them. Repeat after every new seam or fault kind.
set -u
N="${1:-200}"
VERIF="$(cd "$(dirname "$0")/.." && pwd)"
export GOFLAGS=-mod=mod GOPROXY=off GOSUMDB=off GOTOOLCHAIN=local
S="$(mktemp -d /tmp/verif-det-XXXXXX)"; trap 'rm -rf "$S"' EXIT
"$VERIF/bin/build.sh" "$S" plain || exit 2
"$VERIF/bin/build.sh" "$S" race || exit 2
fail=0
for prop in ${DET_PROPS:-C06 C11 C12 C14 C15 C17}; do
  bin="$S/worker"; case $prop in C12|C17) bin="$S/worker-race";; esac
  n=$N; case $prop in C14|C15) n=$((N/4));; esac
  ref=""
  for gm in 1 4 16; do for rep in 1 2 3; do
    out="$S/out-$prop-$gm-$rep.json"
    GOMAXPROCS=$gm GORACE="halt_on_error=1 exitcode=66" VF_ARGS="{\"prop\":\"$prop\",\"mode\":\"explore\",\"seed\":${VERIF_SEED:-20260928},\"from\":0,\"stride\":1,\"count\":$n,\"tier\":\"quick\",\"labels\":true,\"out\":\"$out\"}" \
      "$bin" -test.run '^TestWorker$' -test.timeout 0 >/dev/null 2>"$S/err.log" || { echo "$prop: worker failed (GOMAXPROCS=$gm rep $rep): $(head -5 "$S/err.log")"; fail=1; continue; }
    h="$(python3 -c "import json,hashlib;r=json.load(open('$out'));print(hashlib.sha1(str(r['all_fps']).encode()).hexdigest(), len(r['all_fps']))")"
    if [ -z "$ref" ]; then ref="$h"; elif [ "$h" != "$ref" ]; then echo "$prop: FINGERPRINT MISMATCH at GOMAXPROCS=$gm rep $rep: $h vs $ref"; fail=1; fi
  done; done
  echo "$prop: 9 processes x $n runs -> $ref"
done
exit $fail
