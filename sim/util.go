package sim

import (
	"math"
	"regexp"
)

func float64frombits(b uint64) float64 { return math.Float64frombits(b) }
func float32frombits(b uint32) float32 { return math.Float32frombits(b) }

var ptrRe = regexp.MustCompile(`0x[0-9a-f]{6,}`)

// maskErr renders an error for comparison: nil / text with pointer values masked.
func maskErr(err error) string {
	if err == nil {
		return "<nil>"
	}
	return "E:" + ptrRe.ReplaceAllString(err.Error(), "0xPTR")
}
