package sim

// Cooperative scheduler: tasks are real goroutines, but exactly one is unparked at any moment and
// the choice stream decides who runs next and for how many library statements. The task-side
// hand-off is bracketed by RaceDisable/RaceEnable so that the race detector does not see the
// hand-off as synchronisation: tasks look concurrent to it although they run one at a time, and
// every conflicting pair of accesses that the chosen schedule executes is reported
// deterministically. A task that blocks inside library code is detected with the fake clock of
// the enclosing synctest bubble.

import (
	"os"
	"runtime"
	"sync"
	"time"

	hessian "github.com/vogo/gohessian"
)

type msgKind int

const (
	mYield msgKind = iota
	mEvent
	mBlock
	mDone
	mLockWait
)

type Event struct {
	Seq   int64
	Task  int
	Kind  string
	Obj   uintptr
	Val   interface{}
	Steps uint64 // the task's own statements since its previous event
}

type schedMsg struct {
	kind   msgKind
	site   int32
	ev     Event
	cond   func() bool
	wakeFn func() uint64
}

type Task struct {
	ID        int
	g         uintptr // identity of the task's goroutine (getg)
	resume    chan struct{}
	fn        func(t *Task)
	quantum   int
	own       uint64 // own statements since last event
	lastSite  int32
	die       bool
	state     int // 0 runnable, 1 blocked on harness condition, 2 done, 3 abandoned
	cond      func() bool
	wakeFn    func() uint64 // simulated time at which a blocked task's condition may start to hold (0 = unknown)
	stallTo   uint64
	prio      int
	s         *Sched
	locksHeld int    // library locks this task holds (cooperative TryLock successes minus releases)
	lockWait  uint64 // 1 + progress counter when the task last failed to take a library lock (0 = not waiting)
}

var schedDebug = os.Getenv("VF_SCHED_DEBUG") != ""

const (
	tsRunnable = iota
	tsBlocked
	tsDone
	tsAbandoned
)

const (
	polRandom = iota
	polRoundRobin
	polPCT
	polSequential
)

type Sched struct {
	ch          *Choices
	tasks       []*Task
	cur         *Task
	toSched     chan schedMsg
	Steps       uint64
	Seq         int64
	Policy      int
	MeanQ       int
	MaxSteps    uint64
	MaxSwitches int
	fp          *Fingerprint
	Switches    int
	SwitchSet   map[[2]int32]struct{}
	OnEvent     func(ev *Event) // scheduler goroutine; may record a violation via s.Fail
	OnLockWait  func(t *Task)   // scheduler goroutine: task t could not take a library lock
	StallP      int             // per-mille probability that a scheduling decision stalls a task
	AbandonP    int
	Stalls      int
	Abandons    int
	wg          sync.WaitGroup

	// results
	BlockedTask *Task // durably blocked inside library code
	Deadlock    bool  // no task runnable, some blocked on harness conditions
	Overrun     bool  // step budget exhausted
	FailClass   string
	FailKey     string
	FailDetail  string
	pctChange   map[uint64]bool
	rr          int
	dying       bool
	// sleeping: the running task is inside Task.Sleep (the fake clock is advancing). Library code that
	// reaches a hook meanwhile runs on a goroutine the simulator does not own (a background goroutine
	// of the library woken by a timer); it is stopped and the run is marked Foreign.
	sleeping  bool
	Foreign   bool
	onceOwner *Task
	onceDepth int
	epoch     uint64 // incremented whenever a task is released to run
	progress  uint64 // incremented whenever a task hands back after really running, or simulated time jumps
	LockWaits int
	Blocks    int
}

func NewSched(ch *Choices, policy, meanQ int) *Sched {
	return &Sched{ch: ch, toSched: make(chan schedMsg), Policy: policy, MeanQ: meanQ, MaxSteps: 3_000_000, MaxSwitches: 120_000,
		fp: NewFingerprint(), SwitchSet: map[[2]int32]struct{}{}}
}

func (s *Sched) Fail(class, key, detail string) {
	if s.FailClass == "" {
		s.FailClass, s.FailKey, s.FailDetail = class, key, detail
	}
}

func (s *Sched) Spawn(fn func(t *Task)) *Task {
	t := &Task{ID: len(s.tasks), resume: make(chan struct{}), fn: fn, s: s}
	s.tasks = append(s.tasks, t)
	return t
}

// ---- task side (all //go:norace: scheduler state is only ever touched by one goroutine at a time) ---

//go:norace
func (s *Sched) stepHook(site int32) {
	if s.dying {
		return // tasks are being released at the end of the run (deferred library code may still execute)
	}
	t := s.cur
	if t == nil || getg() != t.g {
		// a goroutine the library started itself (a janitor, a timed hand-off): it runs outside the
		// scheduler, un-instrumented in effect. The oracles that judge task events stay sound; what it
		// may not do is wait for a cooperative lock (lockBlocked)
		return
	}
	s.Steps++
	t.own++
	t.lastSite = site
	t.quantum--
	if t.quantum <= 0 {
		t.handoff(schedMsg{kind: mYield, site: site})
	}
}

//go:norace
func (t *Task) handoff(m schedMsg) {
	if t.s.dying {
		runtime.Goexit()
	}
	raceOff()
	t.s.toSched <- m
	<-t.resume
	raceOn()
	if t.die {
		runtime.Goexit()
	}
}

// Emit reports a harness-level event (operation invoke / return). It is a scheduling point.
//
//go:norace
func (t *Task) Emit(kind string, obj uintptr, val interface{}) {
	ev := Event{Task: t.ID, Kind: kind, Obj: obj, Val: val, Steps: t.own}
	t.own = 0
	t.handoff(schedMsg{kind: mEvent, ev: ev, site: -1})
}

// Sleep lets simulated time pass for the running task: every other task is parked, so the bubble's fake
// clock jumps by d at once.
//
//go:norace
func (t *Task) Sleep(d time.Duration) {
	t.s.sleeping = true
	time.Sleep(d)
	t.s.sleeping = false
}

// Block parks the task until cond() holds (evaluated by the scheduler).
//
//go:norace
func (t *Task) Block(cond func() bool) {
	t.handoff(schedMsg{kind: mBlock, cond: cond, site: -2})
}

// lockBlocked is the VfBlocked hook: the running task could not take a library lock (its holder is
// parked). It must not run again before some other task has run.
//
//go:norace
func (s *Sched) lockBlocked() {
	if s.dying {
		runtime.Gosched()
		return
	}
	t := s.cur
	if t == nil {
		runtime.Gosched()
		return
	}
	if getg() != t.g {
		// a library-owned goroutine waits for a lock that a parked task may hold: it would spin while
		// simulated time cannot advance. Not representable: stop it and mark the run.
		s.Foreign = true
		runtime.Goexit()
	}
	t.handoff(schedMsg{kind: mLockWait, site: t.lastSite})
}

// BlockUntil parks the task until cond() holds; simulated time may jump to wakeAt to make it hold.
//
//go:norace
func (t *Task) BlockUntil(cond func() bool, wake func() uint64) {
	t.handoff(schedMsg{kind: mBlock, cond: cond, wakeFn: wake, site: -2})
}

//go:norace
func (s *Sched) lockTaken() {
	if t := s.cur; t != nil && !s.dying && getg() == t.g {
		t.locksHeld++
	}
}

//go:norace
func (s *Sched) lockReleased() {
	if t := s.cur; t != nil && !s.dying && getg() == t.g && t.locksHeld > 0 {
		t.locksHeld--
	}
}

// onceEnter / onceExit bracket `X.Do(f)` statements of the library (sync.Once): a task that arrives
// while another task is inside a Do section waits cooperatively, like a lock waiter.
//
//go:norace
func (s *Sched) onceEnter() {
	if s.dying {
		return
	}
	t := s.cur
	if t == nil || getg() != t.g {
		return
	}
	for s.onceOwner != nil && s.onceOwner != t {
		t.handoff(schedMsg{kind: mLockWait, site: t.lastSite})
		if s.dying {
			return
		}
	}
	s.onceOwner = t
	s.onceDepth++
}

//go:norace
func (s *Sched) onceExit() {
	if t := s.cur; t == nil || getg() != t.g {
		return
	}
	if s.onceOwner == s.cur && s.onceDepth > 0 {
		s.onceDepth--
		if s.onceDepth == 0 {
			s.onceOwner = nil
		}
	}
}

// Yield is an explicit scheduling point in harness code.
//
//go:norace
func (t *Task) Yield() {
	t.handoff(schedMsg{kind: mYield, site: -3})
}

//go:norace
func (t *Task) run() {
	defer t.s.wg.Done()
	t.g = getg()
	raceOff()
	<-t.resume
	raceOn()
	if t.die {
		return
	}
	t.fn(t)
	if t.s.dying {
		return
	}
	raceOff()
	t.s.toSched <- schedMsg{kind: mDone, site: -4}
	raceOn()
}

// ---- scheduler side ---------------------------------------------------------------------------

func (s *Sched) runnable() []*Task {
	var r []*Task
	for _, t := range s.tasks {
		if t.state == tsBlocked && t.cond != nil && t.cond() {
			t.state = tsRunnable
			t.cond = nil
		}
		if t.state == tsRunnable && t.stallTo <= s.Steps && (t.lockWait == 0 || s.progress >= t.lockWait) {
			r = append(r, t)
		}
	}
	return r
}

func (s *Sched) quantumFor() int {
	if s.MaxSwitches > 0 && s.Switches > s.MaxSwitches {
		return 1 << 16 // enough interleaving explored in this run: finish it in long quanta
	}
	switch s.Policy {
	case polSequential:
		return 1 << 30
	case polRoundRobin:
		return s.MeanQ
	default:
		if s.MeanQ <= 1 {
			return 1 + s.ch.Intn(2, "q")
		}
		return 1 + s.ch.Intn(2*s.MeanQ, "q")
	}
}

func (s *Sched) pick(r []*Task) *Task {
	switch s.Policy {
	case polSequential:
		return r[0]
	case polRoundRobin:
		s.rr++
		return r[s.rr%len(r)]
	case polPCT:
		best := r[0]
		for _, t := range r {
			if t.prio > best.prio {
				best = t
			}
		}
		return best
	}
	// random: index 0 = keep the current task when it is runnable
	if s.cur != nil {
		for i, t := range r {
			if t == s.cur {
				r[0], r[i] = r[i], r[0]
				break
			}
		}
	}
	return r[s.ch.Intn(len(r), "next")]
}

// Run drives all spawned tasks to completion (or to a verdict). Must be called inside a synctest
// bubble when block detection is wanted.
func (s *Sched) Run() {
	hessian.VfStep = s.stepHook
	hessian.VfBlocked = s.lockBlocked
	hessian.VfOnceEnter, hessian.VfOnceExit = s.onceEnter, s.onceExit
	hessian.VfLockTaken, hessian.VfLockReleased = s.lockTaken, s.lockReleased
	defer func() {
		hessian.VfStep = nil
		hessian.VfBlocked = nil
		hessian.VfOnceEnter, hessian.VfOnceExit = nil, nil
		hessian.VfLockTaken, hessian.VfLockReleased = nil, nil
	}()
	if s.Policy == polPCT {
		for _, t := range s.tasks {
			t.prio = 1000 + s.ch.Intn(1000, "prio")
		}
		s.pctChange = map[uint64]bool{}
		d := 1 + s.ch.Intn(3, "pct.d")
		for i := 0; i < d; i++ {
			s.pctChange[uint64(s.ch.Intn(4000, "pct.at"))] = true
		}
	}
	for _, t := range s.tasks {
		s.wg.Add(1)
		go t.run()
	}
	timer := time.NewTimer(time.Hour)
	defer timer.Stop()
	live := len(s.tasks)
	var prevSite int32 = -9
	decisions := uint64(0)
	for live > 0 {
		if s.FailClass != "" || s.Steps > s.MaxSteps {
			if s.Steps > s.MaxSteps {
				s.Overrun = true
			}
			break
		}
		r := s.runnable()
		if len(r) == 0 {
			// stalled tasks only? advance simulated time to the earliest stall end
			var next uint64
			for _, t := range s.tasks {
				if t.state == tsRunnable && t.stallTo > s.Steps && (next == 0 || t.stallTo < next) {
					next = t.stallTo
				}
				if t.state == tsBlocked && t.wakeFn != nil {
					if w := t.wakeFn(); w > s.Steps && (next == 0 || w < next) {
						next = w
					}
				}
			}
			if next != 0 {
				s.Steps = next
				s.progress++
				continue
			}
			blocked := false
			for _, t := range s.tasks {
				if t.state == tsBlocked || (t.state == tsRunnable && t.lockWait != 0) {
					blocked = true
				}
			}
			if blocked {
				s.Deadlock = true
			}
			break
		}
		decisions++
		if decisions&1023 == 0 {
			progressBeat.Add(1)
		}
		if s.Policy == polPCT && s.pctChange[decisions] {
			// priority change point: the running task drops to the lowest priority
			if s.cur != nil {
				s.cur.prio = int(-int64(decisions))
			}
		}
		// scheduler-level faults
		if s.StallP > 0 && len(r) > 1 && s.ch.Intn(1000, "stall?") < s.StallP {
			v := r[s.ch.Intn(len(r), "stall.who")]
			v.stallTo = s.Steps + uint64(1+s.ch.Intn(400, "stall.len"))
			s.Stalls++
			s.fp.Add(0x57a11, uint64(v.ID))
			continue
		}
		t := s.pick(r)
		if s.AbandonP > 0 && t.state == tsRunnable && s.ch.Intn(1000, "abandon?") < s.AbandonP && live > 1 {
			t.state = tsAbandoned
			s.Abandons++
			live--
			s.fp.Add(0xaba, uint64(t.ID))
			continue
		}
		if t != s.cur && s.cur != nil {
			s.Switches++
			if len(s.SwitchSet) < 100000 {
				s.SwitchSet[[2]int32{prevSite, t.lastSite}] = struct{}{}
			}
		}
		if schedDebug {
			println("sched: run task", t.ID, "epoch", s.epoch, "steps", s.Steps, "runnable", len(r), "live", live)
		}
		s.cur = t
		s.epoch++
		t.lockWait = 0
		t.quantum = s.quantumFor()
		s.fp.Add(uint64(t.ID), uint64(uint32(t.lastSite)))
		t.resume <- struct{}{}
		timer.Reset(time.Hour)
		select {
		case m := <-s.toSched:
			if schedDebug {
				println("sched:   task", t.ID, "handed off kind", int(m.kind), "site", m.site, siteString(m.site), "ev", m.ev.Kind)
			}
			prevSite = m.site
			if m.kind != mLockWait {
				s.progress++
			}
			switch m.kind {
			case mYield:
			case mEvent:
				s.Seq++
				m.ev.Seq = s.Seq
				s.fp.Add(uint64(m.ev.Task), hashString(m.ev.Kind))
				if s.OnEvent != nil {
					s.OnEvent(&m.ev)
				}
			case mBlock:
				if m.cond != nil && !m.cond() {
					t.state = tsBlocked
					t.cond = m.cond
					t.wakeFn = m.wakeFn
					s.Blocks++
				}
			case mDone:
				t.state = tsDone
				live--
			case mLockWait:
				t.lockWait = s.progress + 1 // eligible again once some other task has really run (or time advanced)
				s.LockWaits++
				if s.OnLockWait != nil {
					s.OnLockWait(t)
				}
				s.fp.Add(0x10c4, uint64(t.ID))
			}
		case <-timer.C:
			// every goroutine of the bubble is durably blocked: the released task is stuck on a
			// channel / cond inside library code
			s.BlockedTask = t
			return
		}
	}
	// release whatever is still parked so that the bubble can end
	s.dying = true
	for _, t := range s.tasks {
		if t.state != tsDone && t != s.BlockedTask {
			t.die = true
			t.resume <- struct{}{}
		}
	}
	s.wg.Wait()
}
