package sim

// Legal Hessian 2.0 encodings that the Go encoder itself never produces (type references,
// variable-length lists, long-form instances, multi-chunk strings, non-minimal numbers).
// They are used where the oracle is differential or robustness-only (C11, C14): decoder state such
// as the type-reference table only matters for streams that use it.

import "bytes"

type foreignBuilder struct {
	ch       *Choices
	buf      bytes.Buffer
	types    []string // type strings defined so far on this stream
	classes  int      // class definitions so far
	Features map[string]int
}

func newForeign(ch *Choices) *foreignBuilder { return &foreignBuilder{ch: ch, Features: map[string]int{}} }

func (f *foreignBuilder) int(v int32) {
	switch f.ch.Intn(3, "f.intform") {
	case 0:
		if v >= -16 && v <= 47 {
			f.buf.WriteByte(byte(0x90 + v))
			return
		}
		fallthrough
	case 1:
		if v >= -2048 && v <= 2047 {
			f.buf.WriteByte(byte(0xc8 + (v >> 8)))
			f.buf.WriteByte(byte(v))
			return
		}
		fallthrough
	default:
		f.buf.Write([]byte{'I', byte(v >> 24), byte(v >> 16), byte(v >> 8), byte(v)})
	}
}

func (f *foreignBuilder) str(s string) {
	rs := []rune(s)
	if len(rs) > 3 && f.ch.Intn(3, "f.chunk") == 1 {
		// split into a non-final and a final chunk
		k := 1 + f.ch.Intn(len(rs)-1, "f.chunk.at")
		f.buf.Write([]byte{'R', byte(k >> 8), byte(k)})
		f.buf.WriteString(string(rs[:k]))
		rs = rs[k:]
		f.buf.Write([]byte{'S', byte(len(rs) >> 8), byte(len(rs))})
		f.buf.WriteString(string(rs))
		f.Features["multi-chunk string"]++
		return
	}
	if len(rs) < 32 {
		f.buf.WriteByte(byte(len(rs)))
	} else {
		f.buf.Write([]byte{'S', byte(len(rs) >> 8), byte(len(rs))})
	}
	f.buf.WriteString(string(rs))
}

// typ writes a type in type position: a literal string (which defines the next type index) or, when
// possible and drawn, a reference to an earlier one.
func (f *foreignBuilder) typ(name string) {
	for i, t := range f.types {
		if t == name && f.ch.Intn(3, "f.typeref") != 0 {
			f.int(int32(i))
			f.Features["type reference"]++
			return
		}
	}
	f.str2(name)
	f.types = append(f.types, name)
}

func (f *foreignBuilder) str2(s string) { // type names: never chunked
	f.buf.WriteByte(byte(len(s)))
	f.buf.WriteString(s)
}

func (f *foreignBuilder) intList() {
	n := f.ch.Range(0, 9, "f.list.n")
	name := "[int32"
	switch f.ch.Intn(5, "f.list.form") {
	case 0: // compact fixed typed
		if n > 7 {
			n = 7
		}
		f.buf.WriteByte(byte(0x70 + n))
		f.typ(name)
	case 1: // 'V' fixed typed
		f.buf.WriteByte('V')
		f.typ(name)
		f.int(int32(n))
	case 2: // variable typed
		f.buf.WriteByte(0x55)
		f.typ(name)
		for i := 0; i < n; i++ {
			f.int(int32(i*7 - 3))
		}
		f.buf.WriteByte('Z')
		f.Features["variable-length typed list"]++
		return
	case 3: // variable untyped
		f.buf.WriteByte(0x57)
		for i := 0; i < n; i++ {
			f.int(int32(i))
		}
		f.buf.WriteByte('Z')
		f.Features["variable-length untyped list"]++
		return
	default: // fixed untyped
		if n <= 7 && f.ch.Intn(2, "f.list.short") == 0 {
			f.buf.WriteByte(byte(0x78 + n))
		} else {
			f.buf.WriteByte(0x58)
			f.int(int32(n))
		}
	}
	for i := 0; i < n; i++ {
		f.int(int32(i*5 - 2))
	}
}

// object writes an instance of zoo class K10..K13 ({A int32}) or K20..K23 ({S string}), defining the class
// when needed, in short or long ('O') form.
func (f *foreignBuilder) object(defined map[string]int) {
	names := []string{"K10", "K11", "K12", "K20", "K21"}
	name := names[f.ch.Intn(len(names), "f.obj.cls")]
	idx, ok := defined[name]
	if !ok {
		f.buf.WriteByte('C')
		f.str2(name)
		f.int(1)
		if name[1] == '1' {
			f.str2("a")
		} else {
			f.str2("s")
		}
		idx = f.classes
		defined[name] = idx
		f.classes++
	}
	if idx <= 15 && f.ch.Intn(2, "f.obj.long") == 0 {
		f.buf.WriteByte(byte(0x60 + idx))
	} else {
		f.buf.WriteByte('O')
		f.int(int32(idx))
		f.Features["long-form instance"]++
	}
	if name[1] == '1' {
		f.int(int32(f.ch.Intn(100, "f.obj.a")))
	} else {
		f.str("value-" + string(rune('a'+f.ch.Intn(26, "f.obj.s"))) + "-long-enough-to-chunk")
	}
}

// foreignStream returns a stream of n top-level values in non-canonical but legal encodings. With
// dangling it may start with a type reference / class index that a FRESH decoder has never seen
// (legal only as a continuation of an earlier stream): fresh and used decoders must agree on it.
func foreignStream(ch *Choices, dangling bool) ([]byte, int, map[string]int) {
	f := newForeign(ch)
	defined := map[string]int{}
	if dangling {
		switch ch.Intn(3, "f.dangling") {
		case 0:
			f.types = []string{"[int32"} // pretend type #0 is known
		case 1:
			defined["K10"] = 0 // pretend class #0 is known
			f.classes = 1
		default:
			// a back-reference to an object of an earlier message
			f.buf.WriteByte(0x51)
			f.int(int32(ch.Intn(3, "f.ref")))
			f.Features["dangling back-reference"]++
		}
		f.Features["stream depends on state of an earlier message"]++
	}
	n := ch.Range(1, 4, "f.n")
	for i := 0; i < n; i++ {
		switch ch.Intn(4, "f.kind") {
		case 0, 1:
			f.intList()
		case 2:
			f.object(defined)
		default:
			f.str("chunked-" + string(rune('a'+ch.Intn(26, "f.s"))) + "-string-value")
		}
	}
	return f.buf.Bytes(), n, f.Features
}
