package sim

// Legal Hessian 2.0 encodings that the Go encoder itself never produces (type references,
// variable-length lists, long-form instances, multi-chunk strings, non-minimal numbers).
// They are used where the oracle is differential or robustness-only (C11, C14): decoder state such
// as the type-reference table only matters for streams that use it.

import (
	"bytes"
	"fmt"
	"strconv"
	"strings"
)

type foreignBuilder struct {
	ch       *Choices
	buf      bytes.Buffer
	types    []string // type strings defined so far on this stream
	classes  int      // class definitions so far
	Features map[string]int
}

func newForeign(ch *Choices) *foreignBuilder {
	return &foreignBuilder{ch: ch, Features: map[string]int{}}
}

func (f *foreignBuilder) int(v int32) {
	switch f.ch.Intn(3, "f.intform") {
	case 0:
		if v >= -16 && v <= 47 {
			f.buf.WriteByte(byte(0x90 + v))
			return
		}
		fallthrough
	case 1:
		if v >= -2048 && v <= 2047 {
			f.buf.WriteByte(byte(0xc8 + (v >> 8)))
			f.buf.WriteByte(byte(v))
			return
		}
		fallthrough
	default:
		f.buf.Write([]byte{'I', byte(v >> 24), byte(v >> 16), byte(v >> 8), byte(v)})
	}
}

func (f *foreignBuilder) str(s string) {
	rs := []rune(s)
	if len(rs) > 3 && f.ch.Intn(3, "f.chunk") == 1 {
		// split into a non-final and a final chunk
		k := 1 + f.ch.Intn(len(rs)-1, "f.chunk.at")
		f.buf.Write([]byte{'R', byte(k >> 8), byte(k)})
		f.buf.WriteString(string(rs[:k]))
		rs = rs[k:]
		f.buf.Write([]byte{'S', byte(len(rs) >> 8), byte(len(rs))})
		f.buf.WriteString(string(rs))
		f.Features["multi-chunk string"]++
		return
	}
	if len(rs) < 32 {
		f.buf.WriteByte(byte(len(rs)))
	} else {
		f.buf.Write([]byte{'S', byte(len(rs) >> 8), byte(len(rs))})
	}
	f.buf.WriteString(string(rs))
}

// typ writes a type in type position: a literal string (which defines the next type index) or, when
// possible and drawn, a reference to an earlier one.
func (f *foreignBuilder) typ(name string) {
	for i, t := range f.types {
		if t == name && f.ch.Intn(3, "f.typeref") != 0 {
			if f.ch.Intn(2, "f.typeref.form") == 1 {
				// the form this library's decoder accepts: one octet that is not a string tag, THEN the index
				// (the grammar's form is the index alone; both are sent so that either reading is exercised)
				f.buf.WriteByte(0x90)
				f.Features["type reference (octet + index form)"]++
			}
			f.int(int32(i))
			f.Features["type reference"]++
			return
		}
	}
	f.str2(name)
	f.types = append(f.types, name)
}

func (f *foreignBuilder) str2(s string) { // type names: never chunked
	f.buf.WriteByte(byte(len(s)))
	f.buf.WriteString(s)
}

func (f *foreignBuilder) intList() {
	n := f.ch.Range(0, 9, "f.list.n")
	name := "[int32"
	if f.ch.Intn(6, "f.list.unknowntype") == 1 {
		name = "[nosuchtype" // a type name the type map does not know: the name is read, the decode then fails
		f.Features["typed list of an unknown type"]++
	}
	switch f.ch.Intn(5, "f.list.form") {
	case 0: // compact fixed typed
		if n > 7 {
			n = 7
		}
		f.buf.WriteByte(byte(0x70 + n))
		f.typ(name)
	case 1: // 'V' fixed typed
		f.buf.WriteByte('V')
		f.typ(name)
		f.int(int32(n))
	case 2: // variable typed
		f.buf.WriteByte(0x55)
		f.typ(name)
		for i := 0; i < n; i++ {
			f.int(int32(i*7 - 3))
		}
		f.buf.WriteByte('Z')
		f.Features["variable-length typed list"]++
		return
	case 3: // variable untyped
		f.buf.WriteByte(0x57)
		for i := 0; i < n; i++ {
			f.int(int32(i))
		}
		f.buf.WriteByte('Z')
		f.Features["variable-length untyped list"]++
		return
	default: // fixed untyped
		if n <= 7 && f.ch.Intn(2, "f.list.short") == 0 {
			f.buf.WriteByte(byte(0x78 + n))
		} else {
			f.buf.WriteByte(0x58)
			f.int(int32(n))
		}
	}
	for i := 0; i < n; i++ {
		f.int(int32(i*5 - 2))
	}
}

// object writes an instance of zoo class K10..K13 ({A int32}) or K20..K23 ({S string}), defining the class
// when needed, in short or long ('O') form.
func (f *foreignBuilder) object(defined map[string]int) {
	names := []string{"K10", "K11", "K12", "K20", "K21"}
	name := names[f.ch.Intn(len(names), "f.obj.cls")]
	idx, ok := defined[name]
	if !ok {
		f.buf.WriteByte('C')
		f.str2(name)
		f.int(1)
		if name[1] == '1' {
			f.str2("a")
		} else {
			f.str2("s")
		}
		idx = f.classes
		defined[name] = idx
		f.classes++
	}
	if idx <= 15 && f.ch.Intn(2, "f.obj.long") == 0 {
		f.buf.WriteByte(byte(0x60 + idx))
	} else {
		f.buf.WriteByte('O')
		f.int(int32(idx))
		f.Features["long-form instance"]++
	}
	if name[1] == '1' {
		f.int(int32(f.ch.Intn(100, "f.obj.a")))
	} else {
		f.str("value-" + string(rune('a'+f.ch.Intn(26, "f.obj.s"))) + "-long-enough-to-chunk")
	}
}

// foreignStream returns a stream of n top-level values in non-canonical but legal encodings. With
// dangling it may start with a type reference / class index that a FRESH decoder has never seen
// (legal only as a continuation of an earlier stream): fresh and used decoders must agree on it.
func foreignStream(ch *Choices, dangling bool) ([]byte, int, map[string]int) {
	f := newForeign(ch)
	defined := map[string]int{}
	if dangling {
		switch ch.Intn(3, "f.dangling") {
		case 0:
			f.types = []string{"[int32"} // pretend type #0 is known
		case 1:
			defined["K10"] = 0 // pretend class #0 is known
			f.classes = 1
		default:
			// a back-reference to an object of an earlier message
			f.buf.WriteByte(0x51)
			f.int(int32(ch.Intn(3, "f.ref")))
			f.Features["dangling back-reference"]++
		}
		f.Features["stream depends on state of an earlier message"]++
	}
	n := ch.Range(1, 4, "f.n")
	for i := 0; i < n; i++ {
		switch ch.Intn(4, "f.kind") {
		case 0, 1:
			f.intList()
		case 2:
			f.object(defined)
		default:
			f.str("chunked-" + string(rune('a'+ch.Intn(26, "f.s"))) + "-string-value")
		}
	}
	return f.buf.Bytes(), n, f.Features
}

// hostileStream builds legal but adversarial structure that byte-level damage of ordinary messages
// never produces: DAGs whose size doubles per level through back-references ("billion laughs"), very
// deep nesting, very many references to one object, very many tiny values. A decoder whose cost is
// bounded by the input size handles all of them in linear time.
func hostileStream(ch *Choices) ([]byte, string) {
	b, d, _ := hostileStreamN(ch)
	return b, d
}

// hostileStreamN also returns the number of top-level values on the stream.
func hostileStreamN(ch *Choices) ([]byte, string, int) {
	var b bytes.Buffer
	f := &foreignBuilder{ch: ch, Features: map[string]int{}}
	switch ch.Intn(18, "hostile.kind") {
	case 17:
		// an evolved version of a class whose Go type embeds a pointer to itself (registered by hand, see
		// c14ExtraTypes): known and unknown field names, a few instances
		cls := []string{"SelfEmb", "CycA"}[ch.Intn(2, "embcyc.cls")]
		known := map[string]string{"SelfEmb": "val", "CycA": "a"}[cls]
		extra := ch.Range(1, 3, "embcyc.extra")
		b.WriteByte(0x57)
		b.WriteByte('C')
		b.WriteByte(byte(len(cls)))
		b.WriteString(cls)
		b.WriteByte(byte(0x90 + 1 + extra))
		b.WriteByte(byte(len(known)))
		b.WriteString(known)
		for i := 0; i < extra; i++ {
			name := fmt.Sprintf("f%d", ch.Intn(1000, "embcyc.name"))
			b.WriteByte(byte(len(name)))
			b.WriteString(name)
		}
		for k, n := 0, ch.Range(1, 4, "embcyc.inst"); k < n; k++ {
			b.WriteByte(0x60)
			b.WriteByte(byte(0x90 + k))
			for i := 0; i < extra; i++ {
				b.WriteByte(0x91)
			}
		}
		b.WriteByte('Z')
		return b.Bytes(), fmt.Sprintf("evolved class %s (Go type with an embedding cycle), %d unknown field names", cls, extra), 1
	case 16:
		// a typed list whose type NAME is long and structured: hundreds to tens of thousands of '[' in front
		// of an element name (a multi-dimensional array type nobody registered)
		depth := ch.Range(100, 30000, "arrayname.depth")
		base := []string{"int", "string", "long", "double", "K00", "Labels", "com.example.verif.Named", "x"}[ch.Intn(8, "arrayname.base")]
		name := strings.Repeat("[", depth) + base
		if ch.Intn(2, "arrayname.form") == 0 {
			b.WriteByte(0x70) // empty fixed-length typed list
		} else {
			b.WriteByte(0x55) // variable-length typed list
		}
		b.WriteByte('S')
		b.WriteByte(byte(len(name) >> 8))
		b.WriteByte(byte(len(name)))
		b.WriteString(name)
		if b.Bytes()[0] == 0x55 {
			b.WriteByte('Z')
		}
		return b.Bytes(), fmt.Sprintf("typed list whose type name is %d x '[' + %q", depth, base), 1
	case 15:
		// a class definition that really carries thousands of field names the Go type does not have,
		// then thousands of short instances of it (work per instance x work per field name)
		nf := ch.Range(100, 3000, "unkfields.n")
		ni := ch.Range(100, 3000, "unkfields.inst")
		withValues := ch.Intn(2, "unkfields.values") == 1
		if withValues && nf*ni > 300_000 {
			ni = 300_000 / nf
		}
		b.WriteByte(0x57)
		b.WriteByte('C')
		b.WriteByte(3)
		b.WriteString("K00")
		b.Write([]byte{'I', byte(nf >> 24), byte(nf >> 16), byte(nf >> 8), byte(nf)})
		for i := 0; i < nf; i++ {
			name := "u" + strconv.FormatInt(int64(i), 36)
			b.WriteByte(byte(len(name)))
			b.WriteString(name)
		}
		for i := 0; i < ni; i++ {
			b.WriteByte(0x60)
			if withValues {
				// a peer that really sends a value for every field
				for j := 0; j < nf; j++ {
					b.WriteByte(0x90)
				}
			}
		}
		b.WriteByte('Z')
		return b.Bytes(), fmt.Sprintf("class with %d field names unknown to the Go type, %d instances (values sent: %v)", nf, ni, withValues), 1
	case 13:
		// thousands of typed lists that name their type by REFERENCE to one earlier type string
		n := ch.Range(500, 20000, "typerefs.n")
		b.WriteByte(0x57)
		b.WriteByte(0x70)
		b.WriteByte(6)
		b.WriteString("[int32")
		for i := 0; i < n; i++ {
			b.WriteByte(0x70)
			b.WriteByte(0x90)
		}
		b.WriteByte('Z')
		return b.Bytes(), fmt.Sprintf("%d empty typed lists naming their type by reference", n), 1
	case 14:
		// maps that contain themselves as key and / or value, untyped and typed (named map type)
		typed := ch.Intn(2, "selfmap.typed") == 1
		if typed {
			b.WriteByte('M')
			b.WriteByte(6)
			b.WriteString("Labels")
		} else {
			b.WriteByte('H')
		}
		k := ch.Range(1, 3, "selfmap.n")
		for i := 0; i < k; i++ {
			if ch.Intn(2, "selfmap.key") == 1 {
				b.WriteByte(0x51)
				b.WriteByte(0x90)
			} else {
				b.WriteByte(1)
				b.WriteByte(byte('a' + i))
			}
			b.WriteByte(0x51)
			b.WriteByte(0x90)
		}
		b.WriteByte('Z')
		return b.Bytes(), fmt.Sprintf("map (typed=%v) holding itself as key / value", typed), 1
	case 12:
		// thousands of objects whose list-typed field is a back-reference to ONE earlier list: a
		// one-element list owned by the first object, or a long untyped list that stands alone as an
		// element of the enclosing list (so its decoded type differs from the field's: every reference may
		// cost a conversion of the whole list)
		n := ch.Range(2000, 20000, "fanin.n")
		m := []int{1, 1, 300, 4000}[ch.Intn(4, "fanin.listlen")]
		b.WriteByte(0x57) // ordinal 0
		ref := byte(0x92)
		if m > 1 {
			if n*m > 20_000_000 {
				n = 20_000_000 / m
			}
			b.Write([]byte{0x58, 'I', byte(m >> 24), byte(m >> 16), byte(m >> 8), byte(m)}) // ordinal 1
			strs := ch.Intn(3, "fanin.strings") == 1                                        // elements that cannot become the field's element type
			for i := 0; i < m; i++ {
				if strs {
					b.WriteByte(0x00)
				} else {
					b.WriteByte(byte(0x90 + i%40))
				}
			}
			ref = 0x91
		}
		b.WriteByte('C')
		b.WriteByte(3)
		b.WriteString("K09")
		b.WriteByte(0x91)
		b.WriteByte(1)
		b.WriteString("l")
		if m == 1 {
			b.WriteByte(0x60) // ordinal 1
			b.WriteByte(0x79) // its list: ordinal 2
			b.WriteByte(0x91)
		}
		for i := 0; i < n; i++ {
			b.WriteByte(0x60)
			b.WriteByte(0x51)
			b.WriteByte(ref)
		}
		b.WriteByte('Z')
		return b.Bytes(), fmt.Sprintf("%d objects whose list field is a back-reference to one list of %d elements", n, m), 1
	case 10:
		// a class definition that declares far more fields than it carries, then instances
		declared := 1 << uint(ch.Range(10, 30, "clsdef.exp"))
		present := ch.Range(0, 40, "clsdef.present")
		b.WriteByte('C')
		b.WriteByte(3)
		b.WriteString("K10")
		b.Write([]byte{'I', byte(declared >> 24), byte(declared >> 16), byte(declared >> 8), byte(declared)})
		for i := 0; i < present; i++ {
			b.WriteByte(2)
			b.WriteByte('f')
			b.WriteByte(byte('a' + i%26))
		}
		b.WriteByte(0x60)
		b.WriteByte(0x91)
		return b.Bytes(), fmt.Sprintf("class definition declaring %d fields with %d present", declared, present), 1
	case 11:
		// string / binary chunks that declare their maximum length but carry little, many times over
		n := ch.Range(1, 200, "chunks.n")
		b.WriteByte(0x57)
		for i := 0; i < n; i++ {
			if ch.Intn(2, "chunks.bin") == 1 {
				b.Write([]byte{'B', 0xff, 0xff, 'x'})
			} else {
				b.Write([]byte{'S', 0xff, 0xff, 'x'})
			}
		}
		b.WriteByte('Z')
		return b.Bytes(), fmt.Sprintf("%d string / binary chunks declaring 65535 with one byte present", n), 1
	case 8, 9:
		// a LONG fixed-length list: more elements really present than any up-front allocation cap, with a
		// declared length that is honest or inflated far beyond what the input holds
		n := ch.Range(4090, 9000, "longlist.n")
		declared := n
		switch ch.Intn(3, "longlist.inflate") {
		case 1:
			declared = 1 << uint(ch.Range(17, 23, "longlist.exp"))
		case 2:
			declared = 1 << uint(ch.Range(24, 30, "longlist.exp"))
		}
		typed := ch.Intn(2, "longlist.typed") == 1
		tname := "[int32"
		if typed {
			if ch.Intn(3, "longlist.anytype") == 1 {
				// any name the type map knows: a class, a named map type, a named slice type, a list of structs
				keys := sortedTypeKeys()
				if ch.Intn(3, "longlist.nested") == 1 {
					keys = c14ExtraNames() // container-of-container types registered by hand
				}
				tname = keys[ch.Intn(len(keys), "longlist.type")]
				if ch.Intn(3, "longlist.few") != 0 {
					n = ch.Range(0, 3, "longlist.fewn") // the declared length is all there is
				}
			}
			b.WriteByte('V')
			b.WriteByte(byte(len(tname)))
			b.WriteString(tname)
		} else {
			b.WriteByte(0x58)
		}
		b.Write([]byte{'I', byte(declared >> 24), byte(declared >> 16), byte(declared >> 8), byte(declared)})
		for i := 0; i < n; i++ {
			b.WriteByte(byte(0x90 + i%40))
		}
		return b.Bytes(), fmt.Sprintf("fixed-length list (typed=%v, type %q) declaring %d elements with %d really present", typed, tname, declared, n), 1
	case 6, 7:
		// containers that contain themselves and references of the wrong type: a Bag whose untyped list
		// field holds (a reference to) itself, and whose other fields are references to drawn ordinals
		listName := ZooNameMap["[]interface {}"]
		if listName == "" {
			listName = "[object"
		}
		unknownFirst := ch.Intn(3, "selfref.unknownfield") == 1
		b.WriteByte('C')
		b.WriteByte(3)
		b.WriteString("Bag")
		if unknownFirst {
			// a field the Go struct does not have, carrying a self-containing list
			b.WriteByte(0x94)
			b.WriteByte(2)
			b.WriteString("zz")
		} else {
			b.WriteByte(0x93)
		}
		b.WriteByte(5)
		b.WriteString("items")
		b.WriteByte(5)
		b.WriteString("other")
		b.WriteByte(1)
		b.WriteString("m")
		b.WriteByte(0x60) // the Bag: ordinal 0
		if unknownFirst {
			// value of the unknown field. A decoder that skips unknown fields WITHOUT consuming their value
			// reads it as the next field; one that consumes it meets a list containing itself.
			b.WriteByte(0x71)
			b.WriteByte(byte(len(listName)))
			b.WriteString(listName)
			b.WriteByte(0x51)
			b.WriteByte(0x91)
		}
		n := ch.Range(0, 3, "selfref.n")
		if ch.Intn(2, "selfref.typed") == 0 {
			b.WriteByte(byte(0x70 + n)) // typed list: ordinal 1
			b.WriteByte(byte(len(listName)))
			b.WriteString(listName)
		} else {
			b.WriteByte(byte(0x78 + n)) // untyped list: ordinal 1
		}
		for i := 0; i < n; i++ {
			b.WriteByte(0x51)
			b.WriteByte(byte(0x90 + ch.Intn(2, "selfref.elem"))) // the Bag or the list itself
		}
		if ch.Intn(3, "selfref.otherkind") == 0 {
			b.WriteByte(0x78) // other []int32 := an empty UNTYPED list
		} else {
			b.WriteByte(0x51) // other []int32 := reference to a drawn ordinal (wrong type)
			b.WriteByte(byte(0x90 + ch.Intn(3, "selfref.other")))
		}
		switch ch.Intn(3, "selfref.m") {
		case 0:
			b.WriteByte('N')
		case 1:
			b.WriteByte(0x51)
			b.WriteByte(byte(0x90 + ch.Intn(3, "selfref.mref")))
		default:
			b.WriteByte('H')
			b.WriteByte(1)
			b.WriteString("k")
			b.WriteByte(0x51)
			b.WriteByte(byte(0x90 + ch.Intn(3, "selfref.mval")))
			b.WriteByte('Z')
		}
		nv := 1
		if ch.Intn(2, "selfref.trailing") == 1 {
			// later values of the stream: top-level back-references to containers of the first message
			k := ch.Range(1, 4, "selfref.ntrail")
			for i := 0; i < k; i++ {
				b.WriteByte(0x51)
				b.WriteByte(byte(0x90 + ch.Intn(4, "selfref.trail")))
				nv++
			}
		}
		return b.Bytes(), "Bag with self-containing containers and references of the wrong type (+ top-level back-references as later values)", nv
	case 0:
		// L(n) = [L(n-1), ref L(n-1)] as fixed-length untyped lists: 3n+1 bytes, 2^n paths
		n := ch.Range(8, 60, "hostile.depth")
		for i := 0; i < n; i++ {
			b.WriteByte(0x7a) // untyped list, length 2
		}
		b.WriteByte(0x90) // innermost first element
		b.WriteByte(0x91) // innermost second element
		for i := n - 1; i >= 1; i-- {
			// second element of level i-1: ref to the list opened at level i (ordinal i)
			b.WriteByte(0x51)
			f.buf.Reset()
			f.int(int32(i))
			b.Write(f.buf.Bytes())
		}
		return b.Bytes(), fmt.Sprintf("list DAG of depth %d (each level holds its child twice, once by reference)", n), 1
	case 1:
		// the same with untyped maps: M(n) = {1: M(n-1), 2: ref M(n-1)}
		n := ch.Range(8, 50, "hostile.depth")
		for i := 0; i < n; i++ {
			b.WriteByte('H')
			b.WriteByte(0x91)
		}
		b.WriteByte(0x90)
		for i := n - 1; i >= 0; i-- {
			if i < n-1 {
				b.WriteByte(0x92)
				b.WriteByte(0x51)
				f.buf.Reset()
				f.int(int32(i + 1))
				b.Write(f.buf.Bytes())
			}
			b.WriteByte('Z')
		}
		return b.Bytes(), fmt.Sprintf("map DAG of depth %d", n), 1
	case 2:
		// deep nesting of one-element lists
		n := ch.Range(100, 20000, "hostile.depth")
		kind := byte(0x79)
		if ch.Intn(2, "hostile.var") == 1 {
			kind = 0x57
		}
		for i := 0; i < n; i++ {
			b.WriteByte(kind)
		}
		b.WriteByte(0x90)
		if kind == 0x57 {
			for i := 0; i < n; i++ {
				b.WriteByte('Z')
			}
		}
		return b.Bytes(), fmt.Sprintf("%d nested one-element lists", n), 1
	case 3:
		// one big list, then a long list of references to it
		n := ch.Range(100, 8000, "hostile.refs")
		b.WriteByte(0x57)
		b.WriteByte(0x58)
		f.buf.Reset()
		f.int(200)
		b.Write(f.buf.Bytes())
		for i := 0; i < 200; i++ {
			b.WriteByte(0x90)
		}
		for i := 0; i < n; i++ {
			b.WriteByte(0x51)
			b.WriteByte(0x91)
		}
		b.WriteByte('Z')
		return b.Bytes(), fmt.Sprintf("%d references to one 200-element list", n), 1
	case 4:
		// very many tiny values in a variable-length list, typed as a zoo list
		n := ch.Range(1000, 40000, "hostile.n")
		b.WriteByte(0x55)
		b.WriteByte(6)
		b.WriteString("[int32")
		for i := 0; i < n; i++ {
			b.WriteByte(byte(0x90 + i%40))
		}
		b.WriteByte('Z')
		return b.Bytes(), fmt.Sprintf("variable-length typed list of %d one-byte ints", n), 1
	default:
		// chain of objects, each pointing at the previous one by reference, plus a final fan-in list
		n := ch.Range(50, 3000, "hostile.chain")
		b.WriteByte(0x57)
		b.WriteByte('C')
		b.WriteByte(3)
		b.WriteString("K08")
		b.WriteByte(0x92)
		b.WriteByte(1)
		b.WriteString("p")
		b.WriteByte(1)
		b.WriteString("a")
		for i := 0; i < n; i++ {
			b.WriteByte(0x60)
			if i == 0 {
				b.WriteByte('N')
			} else {
				b.WriteByte(0x51)
				f.buf.Reset()
				f.int(int32(i)) // ordinal 0 is the outer list
				b.Write(f.buf.Bytes())
			}
			b.WriteByte(0x90)
		}
		b.WriteByte('Z')
		return b.Bytes(), fmt.Sprintf("chain of %d objects linked by back-references", n), 1
	}
}

// foreignEvolvedObject encodes an instance of zoo class K10 ({A int32}) the way a peer with a NEWER
// version of the class would: the class definition lists extra fields the Go struct does not have
// (legal: unknown fields are skipped). The extra field names are drawn, so that they are new to the
// process. The extra fields come last and carry one-octet values.
func foreignEvolvedObject(ch *Choices) []byte {
	var b bytes.Buffer
	cls := []string{"K10", "K11", "K12", "K13"}[ch.Intn(4, "evo.cls")]
	extra := 1 + ch.Intn(3, "evo.nextra")
	b.WriteByte('C')
	b.WriteByte(byte(len(cls)))
	b.WriteString(cls)
	b.WriteByte(byte(0x90 + 1 + extra))
	b.WriteByte(1)
	b.WriteString("a")
	for i := 0; i < extra; i++ {
		name := fmt.Sprintf("x%d", ch.Intn(1<<20, "evo.name"))
		b.WriteByte(byte(len(name)))
		b.WriteString(name)
	}
	b.WriteByte(0x60)
	b.WriteByte(byte(0x90 + ch.Intn(40, "evo.a")))
	for i := 0; i < extra; i++ {
		b.WriteByte(0x91)
	}
	return b.Bytes()
}

// deepBadStream: d nested one-element lists whose innermost element is a long-form instance of a
// class index that was never defined. A decoder fails on it deep inside its recursion (on this tree:
// by a recovered index panic).
func deepBadStream(d int) []byte {
	var b bytes.Buffer
	for i := 0; i < d; i++ {
		b.WriteByte(0x79)
	}
	b.WriteByte('O')
	b.WriteByte(0xbf) // class #47
	return b.Bytes()
}

// evolvedObjectBigNames is an evolved-class object (see foreignEvolvedObject) whose unknown field names
// are long and unique (serial makes them distinct across messages).
func evolvedObjectBigNames(ch *Choices, serial int, nameLen int) []byte {
	var b bytes.Buffer
	cls := []string{"K10", "K11", "K12", "K13"}[ch.Intn(4, "evo.cls")]
	b.WriteByte('C')
	b.WriteByte(byte(len(cls)))
	b.WriteString(cls)
	b.WriteByte(0x92)
	b.WriteByte(1)
	b.WriteString("a")
	name := fmt.Sprintf("unknown-%d-", serial)
	for len(name) < nameLen {
		name += "xxxxxxxxxxxxxxxx"
	}
	name = name[:nameLen]
	b.Write([]byte{'S', byte(nameLen >> 8), byte(nameLen)})
	b.WriteString(name)
	b.WriteByte(0x60)
	b.WriteByte(0x91)
	b.WriteByte(0x92)
	return b.Bytes()
}

// foreignChunkedBlob builds, without any library call, a peer's message whose value is a list holding a
// binary in two or three chunks (the first chunks full-size) and a short trailer. Several decoders may be
// handed the SAME byte slice: a message is read-only input.
func foreignChunkedBlob(ch *Choices) []byte {
	var b bytes.Buffer
	b.WriteByte(0x57) // variable-length untyped list
	chunks := ch.Range(2, 3, "blob.chunks")
	fill := byte(ch.Intn(200, "blob.fill"))
	for c := 0; c < chunks; c++ {
		n := 4096
		tag := byte('b')
		if c == chunks-1 {
			n = ch.Range(1, 2000, "blob.tail")
			tag = 'B'
		}
		b.WriteByte(tag)
		b.WriteByte(byte(n >> 8))
		b.WriteByte(byte(n))
		for i := 0; i < n; i++ {
			b.WriteByte(fill + byte(i) + byte(c))
		}
	}
	b.WriteByte(0x03)
	b.WriteString("end")
	b.WriteByte('Z')
	return b.Bytes()
}
