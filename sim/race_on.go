//go:build race

package sim

import "runtime"

const raceBuild = true

//go:norace
func raceOff() { runtime.RaceDisable() }

//go:norace
func raceOn() { runtime.RaceEnable() }
