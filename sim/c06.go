package sim

// C06 — streaming: n writes on one stream read back as the same n values, exact framing.
//
// System: a writer task (one Encoder or Serializer) -> simulated byte pipe -> a reader task (one
// Decoder or Serializer), both under the seeded scheduler. The pipe cuts every write into segments
// with drawn delivery delays, serves short reads, blocks the reader when nothing is deliverable and
// can run in lock-step (the writer does not send v(i+1) before the reader has returned v(i)).
// No data is lost or damaged here: C06 is about a healthy stream (damage is C14).

import (
	"bufio"
	"bytes"
	"fmt"
	"io"
	"runtime"
	"runtime/debug"

	hessian "github.com/vogo/gohessian"
)

func init() { register(&Engine{Name: "C06", Run: runC06, GCPerRun: true}) }

type pipeSeg struct {
	data []byte
	at   uint64 // deliverable when simulated time >= at
}

type Pipe struct {
	s           *Sched
	ch          *Choices
	segs        []pipeSeg
	closed      bool
	Written     int
	HandedOut   int
	maxDelay    int
	cutP        int // percent: probability that a write is cut at a drawn offset (repeatedly)
	shortP      int // percent: probability that a read is capped at a drawn size
	zeroRead    bool
	eofWithLast bool
	rt          *Task // reader task (blocks through the scheduler)
	// counters
	Cuts, ShortReads, ReaderBlocks, MidRune, ZeroReads, EOFWithData int
	reading                                                         bool // the reader is inside a value read (for the "blocked mid-value" probe)
	BlockedMid                                                      int
}

func (p *Pipe) Write(b []byte) (int, error) {
	p.Written += len(b)
	rest := append([]byte(nil), b...)
	now := p.s.Steps
	for len(rest) > 0 {
		n := len(rest)
		if n > 1 && p.ch.Intn(100, "pipe.cut?") < p.cutP {
			n = 1 + p.ch.Intn(n-1, "pipe.cut")
			p.Cuts++
		}
		d := 0
		if p.maxDelay > 0 {
			d = p.ch.Intn(p.maxDelay+1, "pipe.delay")
		}
		at := now + uint64(d)
		// segments are delivered in order: never earlier than their predecessor
		if k := len(p.segs); k > 0 && p.segs[k-1].at > at {
			at = p.segs[k-1].at
		}
		p.segs = append(p.segs, pipeSeg{data: rest[:n:n], at: at})
		rest = rest[n:]
	}
	return len(b), nil
}

func (p *Pipe) Close() { p.closed = true }

func (p *Pipe) deliverable() bool {
	return len(p.segs) > 0 && p.segs[0].at <= p.s.Steps
}

// wait blocks the reader task until a segment is deliverable or the pipe is closed and drained.
func (p *Pipe) wait() {
	for !p.deliverable() && !(p.closed && len(p.segs) == 0) {
		p.ReaderBlocks++
		if p.reading {
			p.BlockedMid++
		}
		p.rt.BlockUntil(func() bool { return p.deliverable() || (p.closed && len(p.segs) == 0) }, func() uint64 {
			if len(p.segs) > 0 {
				return p.segs[0].at
			}
			return 0
		})
	}
}

func (p *Pipe) Read(b []byte) (int, error) {
	if len(b) == 0 {
		return 0, nil
	}
	if p.zeroRead && p.ch.Intn(50, "pipe.zero?") == 1 {
		p.zeroRead = false
		p.ZeroReads++
		return 0, nil // legal: io.Reader may return 0, nil
	}
	p.wait()
	if len(p.segs) == 0 {
		return 0, io.EOF
	}
	// like a real byte stream, one Read may return bytes of several writes: everything deliverable
	// now is coalesced, up to len(b) and the drawn cap
	avail := 0
	for i := 0; i < len(p.segs) && p.segs[i].at <= p.s.Steps && avail < len(b); i++ {
		avail += len(p.segs[i].data)
	}
	n := avail
	if n > len(b) {
		n = len(b)
	}
	if n > 1 && p.ch.Intn(100, "pipe.short?") < p.shortP {
		n = 1 + p.ch.Intn(n-1, "pipe.short")
		p.ShortReads++
	}
	done := 0
	for done < n {
		seg := &p.segs[0]
		k := copy(b[done:n], seg.data)
		seg.data = seg.data[k:]
		done += k
		if len(seg.data) == 0 {
			p.segs = p.segs[1:]
		}
	}
	p.HandedOut += n
	if p.eofWithLast && p.closed && len(p.segs) == 0 {
		p.EOFWithData++
		return n, io.EOF // legal: data together with EOF
	}
	return n, nil
}

// ReadRune is built on the same primitive, one byte at a time: it may block in the middle of a
// UTF-8 sequence and never reads past the rune.
func (p *Pipe) ReadRune() (rune, int, error) {
	var buf [4]byte
	n, err := p.readByte(&buf[0])
	if n == 0 {
		return 0, 0, err
	}
	need := 1
	switch {
	case buf[0] >= 0xf0:
		need = 4
	case buf[0] >= 0xe0:
		need = 3
	case buf[0] >= 0xc0:
		need = 2
	}
	for i := 1; i < need; i++ {
		if !p.deliverable() {
			p.MidRune++
		}
		if k, err := p.readByte(&buf[i]); k == 0 {
			return 0xfffd, i, err
		}
	}
	r := []rune(string(buf[:need]))
	if len(r) != 1 {
		return 0xfffd, need, nil
	}
	return r[0], need, nil
}

func (p *Pipe) readByte(b *byte) (int, error) {
	var one [1]byte
	for {
		n, err := p.Read(one[:])
		if n == 1 {
			*b = one[0]
			return 1, nil
		}
		if err != nil {
			return 0, err
		}
	}
}

const (
	c06EncDec             = iota // Encoder.WriteObject xN / Decoder.ReadObject xN
	c06EncDecOneShotFirst        // Encoder.WriteTo + WriteObject / Decoder.ReadFrom + ReadObject
	c06Serializer                // Serializer.WriteTo + Write / ReadFrom + Read
	nC06Entry
)

var c06EntryNames = []string{"Encoder.WriteObject / Decoder.ReadObject", "Encoder.WriteTo+WriteObject / Decoder.ReadFrom+ReadObject", "Serializer.WriteTo+Write / ReadFrom+Read"}

func runC06(ch *Choices, cfg *RunCfg) (o *Outcome) {
	o = newOutcome()
	setMapOrder(ch.Salt("mapsalt"))
	entry := ch.Intn(nC06Entry, "entry")
	tmRun, nmRun := ZooTypeMap, ZooNameMap
	if ch.Intn(4, "maps.javanames") == 1 {
		tmRun, nmRun, _ = VariantMaps(ch)
		o.Probes["maps with Java-style list / class names"]++
	}
	// ---- the stream ----
	g := NewGen(ch, CoreDomain())
	var n int
	switch ch.Pick([]int{40, 40, 15, 5}, "n.kind") {
	case 0:
		n = ch.Range(1, 3, "n")
	case 1:
		n = ch.Range(2, 8, "n")
	case 2:
		n = ch.Range(8, 20, "n")
	default:
		n = ch.Range(20, 50, "n")
	}
	vals := make([]interface{}, 0, n)
	if ch.Intn(6, "manyclasses") == 1 {
		// push later classes of the stream to indices >= 16 (long-form instances)
		mc := g.ManyClasses(ch.Range(14, 22, "manyclasses.k"))
		vals = append(vals, mc...)
		o.Probes["stream with more than 16 classes (long-form instances)"]++
	}
	for len(vals) < n {
		vals = append(vals, g.Value())
	}
	n = len(vals)
	for k, c := range g.used {
		if c > 0 {
			switch k {
			case "share.node", "top.sharednode":
				o.Probes["back-reference to a node created for an earlier value"]++
			case "str.chunk", "str.chunk2":
				o.Probes["string crossing the chunk size"]++
			case "bin.chunk", "bin.chunk2":
				o.Probes["binary crossing the chunk size"]++
			case "str.multibyte":
				o.Probes["multi-byte runes in strings"]++
			}
		}
	}

	// ---- an earlier stream: one run in five the writer's and the reader's instances have already carried
	// another stream (pooled serializers are used for one connection after another); the stream under test
	// then starts with WriteTo / ReadFrom / Reset on the used instances ----
	var earlierVals []interface{}
	var earlierBytes []byte
	if ch.Intn(5, "earlier") == 1 {
		g2 := NewGen(ch, CoreDomain())
		for i, k := 0, ch.Range(1, 3, "earlier.n"); i < k; i++ {
			earlierVals = append(earlierVals, g2.Value())
		}
		func() {
			defer func() { recover() }()
			var b bytes.Buffer
			e := hessian.NewEncoder(&b, nmRun)
			for _, v := range earlierVals {
				if e.WriteObject(v) != nil {
					return
				}
			}
			earlierBytes = b.Bytes()
		}()
		if earlierBytes == nil {
			earlierVals = nil
		} else {
			o.Probes["writer and reader instances had carried an earlier stream"]++
		}
	}

	// ---- expected bytes and value boundaries: the same values through an identical encoder, alone ----
	resetClock(0)
	offsets := make([]int, n)
	var expBuf bytes.Buffer
	encodable := true
	func() {
		defer func() {
			if recover() != nil {
				encodable = false
			}
		}()
		enc := hessian.NewEncoder(&expBuf, nmRun)
		for i, v := range vals {
			if err := enc.WriteObject(v); err != nil {
				o.fail("c06/encode-error", "WriteObject", "value #%d of the stream (%s) is in the supported domain but the encoder rejects it: %v", i, clip(describe(v), 120), err)
				return
			}
			offsets[i] = expBuf.Len()
		}
	}()
	if !encodable {
		return o.fail("c06/encode-error", "panic", "the encoder panics on a supported value of the stream (first value %s)", clip(describe(vals[0]), 120))
	}
	if o.Class != "" {
		return o
	}
	if expBuf.Len() > 256<<10 {
		o.Skipped = true
		return o
	}
	origCanon, _ := CanonTuple(vals, CanonOpts{Norm: true})

	// ---- the simulated system ----
	policy := []int{polRandom, polRoundRobin, polPCT}[ch.Pick([]int{60, 20, 20}, "policy")]
	meanQ := []int{1, 3, 10, 100, 1000}[ch.Intn(5, "meanq")]
	s := NewSched(ch, policy, meanQ)
	// liveness bound, not a performance budget: generous, and proportional to the stream (a stream with two
	// lists of 20000 elements is a quarter of a megabyte)
	s.MaxSteps = 4_000_000 + 1000*uint64(expBuf.Len())
	pipe := &Pipe{s: s, ch: ch}
	pipe.maxDelay = []int{0, 0, 20, 400}[ch.Intn(4, "pipe.maxdelay")]
	pipe.cutP = []int{0, 20, 60, 100}[ch.Intn(4, "pipe.cutp")]
	pipe.shortP = []int{0, 20, 60, 100}[ch.Intn(4, "pipe.shortp")]
	pipe.zeroRead = ch.Intn(4, "pipe.zeroread") == 1
	pipe.eofWithLast = ch.Intn(4, "pipe.eofwithlast") == 1
	lockstep := ch.Intn(3, "lockstep") == 1
	useBufio := ch.Intn(3, "bufio") == 1
	bufSize := 16 << uint(ch.Intn(9, "bufio.size"))
	if ch.Intn(3, "stalls") == 1 {
		s.StallP = ch.Intn(30, "stallp")
	}

	// Garbage collection is a nondeterminism source the property can depend on (the encoder's reference
	// table is keyed by addresses): the collector is switched off for the run and runs only at drawn
	// points between two writes, so that one seed is one repeatable execution.
	gcBefore := make([]bool, n)
	gcP := []int{0, 0, 30, 100}[ch.Intn(4, "gc.p")]
	for i := range gcBefore {
		gcBefore[i] = gcP > 0 && ch.Intn(100, "gc?") < gcP
	}
	oldGC := debug.SetGCPercent(-1)
	defer func() {
		debug.SetGCPercent(oldGC)
	}()
	gcs := 0

	got := make([]interface{}, n)
	readErr := make([]error, n)
	consumedAfter := make([]int, n)
	returned := 0 // values the reader has returned (ack for lock-step)
	var writerErr error
	writerIdx := -1
	var rpanic, wpanic interface{}

	s.Spawn(func(t *Task) { // writer
		defer func() {
			if r := recover(); r != nil {
				wpanic = r
			}
			pipe.Close()
		}()
		var enc *hessian.Encoder
		var ser hessian.Serializer
		var scratch bytes.Buffer
		switch entry {
		case c06EncDec:
			if earlierVals != nil {
				enc = hessian.NewEncoder(&scratch, nmRun)
				for _, v := range earlierVals {
					enc.WriteObject(v)
				}
				enc.Reset(pipe)
			} else {
				enc = hessian.NewEncoder(pipe, nmRun)
			}
		case c06EncDecOneShotFirst:
			enc = hessian.NewEncoder(nil, nmRun)
			for i, v := range earlierVals {
				if i == 0 {
					enc.WriteTo(&scratch, v)
				} else {
					enc.WriteObject(v)
				}
			}
		default:
			ser = hessian.NewSerializer(tmRun, nmRun)
			for i, v := range earlierVals {
				if i == 0 {
					ser.WriteTo(&scratch, v)
				} else {
					ser.Write(v)
				}
			}
		}
		for i, v := range vals {
			if lockstep && i > 0 {
				i := i
				t.Block(func() bool { return returned >= i })
			}
			if gcBefore[i] {
				runtime.GC()
				gcs++
			}
			var err error
			switch {
			case ser != nil && i == 0:
				err = ser.WriteTo(pipe, v)
			case ser != nil:
				err = ser.Write(v)
			case entry == c06EncDecOneShotFirst && i == 0:
				err = enc.WriteTo(pipe, v)
			default:
				err = enc.WriteObject(v)
			}
			if err != nil {
				writerErr, writerIdx = err, i
				return
			}
		}
	})
	rt := s.Spawn(func(t *Task) { // reader
		defer func() {
			if r := recover(); r != nil {
				rpanic = r
			}
		}()
		var rd hessian.ByteRuneReader = pipe
		var br *bufio.Reader
		if useBufio {
			br = bufio.NewReaderSize(pipe, bufSize)
			rd = br
		}
		var dec *hessian.Decoder
		var ser hessian.Serializer
		earlierRd := bufio.NewReader(bytes.NewReader(earlierBytes))
		switch entry {
		case c06EncDec:
			if earlierVals != nil {
				dec = hessian.NewDecoder(earlierRd, tmRun)
				for range earlierVals {
					dec.ReadObject()
				}
				dec.Reset(rd)
			} else {
				dec = hessian.NewDecoder(rd, tmRun)
			}
		case c06EncDecOneShotFirst:
			dec = hessian.NewDecoder(nil, tmRun)
			for i := range earlierVals {
				if i == 0 {
					dec.ReadFrom(earlierRd)
				} else {
					dec.ReadObject()
				}
			}
		default:
			ser = hessian.NewSerializer(tmRun, nmRun)
			for i := range earlierVals {
				if i == 0 {
					ser.ReadFrom(earlierRd)
				} else {
					ser.Read()
				}
			}
		}
		for i := 0; i < n; i++ {
			pipe.reading = true
			var v interface{}
			var err error
			switch {
			case ser != nil && i == 0:
				v, err = ser.ReadFrom(rd)
			case ser != nil:
				v, err = ser.Read()
			case entry == c06EncDecOneShotFirst && i == 0:
				v, err = dec.ReadFrom(rd)
			default:
				v, err = dec.ReadObject()
			}
			pipe.reading = false
			got[i], readErr[i] = v, err
			consumedAfter[i] = pipe.HandedOut
			if br != nil {
				consumedAfter[i] -= br.Buffered()
			}
			returned = i + 1
			if err != nil {
				return
			}
			t.Yield()
		}
	})
	pipe.rt = rt
	s.Run()

	o.Steps = s.Steps
	o.Evals = 1
	o.Fingerprint = s.fp.Sum() ^ hashBytes(expBuf.Bytes())
	o.Nontrivial = s.Switches > 0 || pipe.Cuts > 0 || pipe.ShortReads > 0 || pipe.ReaderBlocks > 0
	o.SwitchPairs = len(s.SwitchSet)
	o.Faults["write cut into segments"] += pipe.Cuts
	o.Faults["short read"] += pipe.ShortReads
	o.Faults["reader blocked waiting for bytes"] += pipe.ReaderBlocks
	o.Faults["read returned (0, nil)"] += pipe.ZeroReads
	o.Faults["read returned data together with io.EOF"] += pipe.EOFWithData
	o.Faults["context switch"] += s.Switches
	o.Faults["task stalled"] += s.Stalls
	o.Faults["garbage collection forced between two writes"] += gcs
	if pipe.MidRune > 0 {
		o.Probes["reader blocked / short read in the middle of a multi-byte rune"]++
	}
	if pipe.BlockedMid > 0 {
		o.Probes["reader blocked mid-value"]++
	}
	if lockstep {
		o.Probes["lock-step mode (writer waits for the reader's ack)"]++
	}
	if useBufio {
		o.Probes[fmt.Sprintf("read through bufio (size %d)", bufSize)]++
	}
	o.Sample = map[string]interface{}{"entry": c06EntryNames[entry], "values": n, "stream_bytes": expBuf.Len(), "lockstep": lockstep, "bufio": useBufio, "bufio_size": bufSize,
		"cuts": pipe.Cuts, "short_reads": pipe.ShortReads, "reader_blocks": pipe.ReaderBlocks, "first_value": describe(vals[0])}
	cfgS := fmt.Sprintf("%s, %d values, %d bytes, lockstep=%v bufio=%v(%d) cutP=%d shortP=%d maxDelay=%d policy=%d q=%d", c06EntryNames[entry], n, expBuf.Len(), lockstep, useBufio, bufSize, pipe.cutP, pipe.shortP, pipe.maxDelay, policy, meanQ)

	// ---- oracles ----
	if wpanic != nil {
		return o.fail("c06/encode-error", "panic", "%s: the writer panicked: %v", cfgS, wpanic)
	}
	if rpanic != nil {
		return o.fail("c06/read-panic", "panic", "%s: the reader panicked on a healthy stream: %v", cfgS, rpanic)
	}
	if writerErr != nil {
		return o.fail("c06/encode-error", "WriteObject", "%s: write #%d failed on a healthy pipe: %v", cfgS, writerIdx, writerErr)
	}
	for i := 0; i < n; i++ {
		if readErr[i] != nil {
			return o.fail("c06/read-error", "ReadObject", "%s: read #%d (value %s) returned an error on a healthy stream: %v", cfgS, i, clip(describe(vals[i]), 100), readErr[i])
		}
	}
	if s.Overrun {
		return o.fail("c06/stuck", "steps", "%s: the run did not finish within %d simulated steps (%d values returned)", cfgS, s.MaxSteps, returned)
	}
	for i := 0; i < returned; i++ {
		if consumedAfter[i] != offsets[i] {
			return o.fail("c06/framing", "offset", "%s: after read #%d the decoder has consumed %d bytes, but value #%d ends at byte %d of the stream (value %s)",
				cfgS, i, consumedAfter[i], i, offsets[i], clip(describe(vals[i]), 100))
		}
	}
	if s.Deadlock {
		cls := "c06/stuck"
		if lockstep {
			cls = "c06/overread-deadlock"
		}
		return o.fail(cls, "deadlock", "%s: reader and writer are both blocked after %d value(s) were returned: the reader waits for bytes although value #%d is completely delivered (%d of %d bytes written, %d handed out) - the decoder needs bytes of the next value before it returns this one; value #%d = %s, its bytes = %x",
			cfgS, returned, returned, pipe.Written, expBuf.Len(), pipe.HandedOut, returned, clip(describe(vals[minInt(returned, n-1)]), 300), clipBytes(valueBytes(expBuf.Bytes(), offsets, minInt(returned, n-1)), 200))
	}
	if returned != n {
		return o.fail("c06/stuck", "short", "%s: only %d of %d values were read", cfgS, returned, n)
	}
	gotCanon, carrier := CanonTuple(got, CanonOpts{Norm: true})
	if carrier != "" {
		return o.fail("c06/carrier", carrier, "%s: a read handed back an internal carrier type (%s) instead of a documented Go type", cfgS, carrier)
	}
	if gotCanon != origCanon {
		// find the first differing value for the report
		idx := -1
		for i := 0; i < n; i++ {
			a, _ := CanonTuple(vals[:i+1], CanonOpts{Norm: true})
			b, _ := CanonTuple(got[:i+1], CanonOpts{Norm: true})
			if a != b {
				idx = i
				break
			}
		}
		return o.fail("c06/value", "mismatch", "%s: read #%d differs from the value written: %s", cfgS, idx, firstDiff(origCanon, gotCanon))
	}
	return o
}

func valueBytes(all []byte, offsets []int, i int) []byte {
	lo := 0
	if i > 0 {
		lo = offsets[i-1]
	}
	return all[lo:offsets[i]]
}
