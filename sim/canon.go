package sim

// Canonical rendering of a Go value graph. Two graphs are "equal" for the oracles exactly when
// their renderings are equal. The rendering numbers pointers, maps and non-empty slices in
// first-visit order, so it also captures which access paths reach the same object (pointer
// identity isomorphism), terminates on cycles, treats NaN as equal to NaN, and can apply the
// documented normalisations (C01: nil == empty container, -0 == 0, timestamps as millisecond
// instants, integer / float width of a top-level scalar ignored, T vs *T at top level).
//
// It is also used for before/after snapshots of caller-owned inputs (mutation detection).

import (
	"fmt"
	"math"
	"reflect"
	"sort"
	"strings"
	"time"
)

type CanonOpts struct {
	Norm bool // apply the C01 normalisations (original vs decoded); false = strict
}

type canonKey struct {
	ptr uintptr
	n   int
	typ reflect.Type
}

type canoner struct {
	o        CanonOpts
	ids      map[canonKey]int
	sb       strings.Builder
	Carrier  string // first internal carrier type met ("" if none)
	nodes    int
	maxNodes int
}

var timeType = reflect.TypeOf(time.Time{})

const hessianPkg = "github.com/vogo/gohessian"

// Canon renders v. carrier is non-empty when a reflect.Value or an unexported hessian type was met.
func Canon(v interface{}, o CanonOpts) (s string, carrier string) {
	c := &canoner{o: o, ids: map[canonKey]int{}, maxNodes: 5_000_000}
	if v == nil {
		return "nil", ""
	}
	rv := reflect.ValueOf(v)
	if o.Norm {
		// T and *T are identified at top level; the top object gets id 0 either way
		if rv.Kind() == reflect.Ptr && !rv.IsNil() && rv.Elem().Kind() == reflect.Struct && rv.Type().Elem() != timeType {
			c.noteCarrier(rv.Type())
			c.ids[canonKey{rv.Pointer(), 0, rv.Type()}] = 0
			c.sb.WriteString("&0")
			rv = rv.Elem()
		} else if rv.Kind() == reflect.Struct && rv.Type() != timeType && !(rv.Type().PkgPath() == "reflect") {
			c.ids[canonKey{0, -1, rv.Type()}] = 0
			c.sb.WriteString("&0")
		}
	}
	c.walk(rv, true)
	return c.sb.String(), c.Carrier
}

// CanonTuple renders several top-level values (the messages of one stream) with ONE id table, so
// that identity across messages is captured too. The top-level normalisations apply per value.
func CanonTuple(vals []interface{}, o CanonOpts) (s string, carrier string) {
	c := &canoner{o: o, ids: map[canonKey]int{}, maxNodes: 5_000_000}
	for i, v := range vals {
		if i > 0 {
			c.sb.WriteString(" | ")
		}
		if v == nil {
			c.sb.WriteString("nil")
			continue
		}
		rv := reflect.ValueOf(v)
		if o.Norm && rv.Kind() == reflect.Ptr && !rv.IsNil() && rv.Elem().Kind() == reflect.Struct && rv.Type().Elem() != timeType {
			c.noteCarrier(rv.Type())
			k := canonKey{rv.Pointer(), 0, rv.Type()}
			if id, ok := c.ids[k]; ok {
				fmt.Fprintf(&c.sb, "^%d", id)
				continue
			}
			id := len(c.ids)
			c.ids[k] = id
			fmt.Fprintf(&c.sb, "&%d", id)
			rv = rv.Elem()
		} else if o.Norm && rv.Kind() == reflect.Struct && rv.Type() != timeType && rv.Type().PkgPath() != "reflect" {
			id := len(c.ids)
			c.ids[canonKey{uintptr(id), -1, rv.Type()}] = id
			fmt.Fprintf(&c.sb, "&%d", id)
		}
		c.walk(rv, true)
	}
	return c.sb.String(), c.Carrier
}

func (c *canoner) noteCarrier(t reflect.Type) {
	if c.Carrier != "" {
		return
	}
	for t.Kind() == reflect.Ptr || t.Kind() == reflect.Slice {
		t = t.Elem()
	}
	if t.PkgPath() == "reflect" && t.Name() == "Value" {
		c.Carrier = "reflect.Value"
		return
	}
	if t.PkgPath() == hessianPkg && t.Name() != "" {
		r := t.Name()[0]
		if !(r >= 'A' && r <= 'Z') {
			c.Carrier = "hessian." + t.Name()
		}
	}
}

func (c *canoner) walk(v reflect.Value, top bool) {
	c.nodes++
	if c.nodes > c.maxNodes {
		c.sb.WriteString("<too large>")
		return
	}
	if !v.IsValid() {
		c.sb.WriteString("nil")
		return
	}
	t := v.Type()
	c.noteCarrier(t)
	switch v.Kind() {
	case reflect.Interface:
		if v.IsNil() {
			c.sb.WriteString("nil")
			return
		}
		c.walk(v.Elem(), top)
	case reflect.Ptr:
		if v.IsNil() {
			c.sb.WriteString("nil")
			return
		}
		k := canonKey{v.Pointer(), 0, t}
		if id, ok := c.ids[k]; ok {
			fmt.Fprintf(&c.sb, "^%d", id)
			return
		}
		id := len(c.ids)
		c.ids[k] = id
		fmt.Fprintf(&c.sb, "&%d", id)
		c.walk(v.Elem(), false)
	case reflect.Bool:
		fmt.Fprintf(&c.sb, "b:%v", v.Bool())
	case reflect.Int, reflect.Int8, reflect.Int16, reflect.Int32, reflect.Int64:
		if c.o.Norm {
			fmt.Fprintf(&c.sb, "i:%d", v.Int())
		} else {
			fmt.Fprintf(&c.sb, "%s:%d", t.String(), v.Int())
		}
	case reflect.Uint, reflect.Uint8, reflect.Uint16, reflect.Uint32, reflect.Uint64, reflect.Uintptr:
		if c.o.Norm {
			fmt.Fprintf(&c.sb, "i:%d", int64(v.Uint()))
		} else {
			fmt.Fprintf(&c.sb, "%s:%d", t.String(), v.Uint())
		}
	case reflect.Float32, reflect.Float64:
		f := v.Float()
		tn := t.String()
		if c.o.Norm {
			tn = "f"
			if f == 0 {
				f = 0 // -0 == 0
			}
		}
		if math.IsNaN(f) {
			fmt.Fprintf(&c.sb, "%s:NaN", tn)
		} else {
			fmt.Fprintf(&c.sb, "%s:%x", tn, math.Float64bits(f))
		}
	case reflect.String:
		if c.o.Norm && v.Len() == 0 {
			c.sb.WriteString("nil") // an absent string equals the empty string
			return
		}
		fmt.Fprintf(&c.sb, "s:%q", v.String())
	case reflect.Slice, reflect.Array:
		if v.Kind() == reflect.Slice && t.Elem().Kind() == reflect.Uint8 {
			if !c.o.Norm && v.IsNil() {
				c.sb.WriteString("B:nil")
				return
			}
			if c.o.Norm && v.Len() == 0 {
				c.sb.WriteString("nil")
				return
			}
			fmt.Fprintf(&c.sb, "B:%x", v.Bytes())
			return
		}
		if v.Len() == 0 {
			if !c.o.Norm && v.Kind() == reflect.Slice && v.IsNil() {
				c.sb.WriteString("[nil]")
			} else if c.o.Norm {
				c.sb.WriteString("nil") // nil and empty containers are identified
			} else {
				c.sb.WriteString("[]")
			}
			if !c.o.Norm {
				c.sb.WriteString(t.String())
			}
			return
		}
		if v.Kind() == reflect.Slice {
			k := canonKey{v.Pointer(), v.Len(), t}
			if id, ok := c.ids[k]; ok {
				fmt.Fprintf(&c.sb, "^%d", id)
				return
			}
			id := len(c.ids)
			c.ids[k] = id
			fmt.Fprintf(&c.sb, "[%d:", id)
		} else {
			c.sb.WriteString("[a:")
		}
		if !c.o.Norm {
			c.sb.WriteString(t.String())
			c.sb.WriteString(":")
		}
		for i := 0; i < v.Len(); i++ {
			if i > 0 {
				c.sb.WriteByte(',')
			}
			c.walk(v.Index(i), false)
		}
		c.sb.WriteByte(']')
	case reflect.Map:
		if v.Len() == 0 {
			if !c.o.Norm && v.IsNil() {
				c.sb.WriteString("{nil}")
			} else if c.o.Norm {
				c.sb.WriteString("nil")
			} else {
				c.sb.WriteString("{}")
			}
			if !c.o.Norm {
				c.sb.WriteString(t.String())
			}
			return
		}
		k := canonKey{v.Pointer(), 0, t}
		if id, ok := c.ids[k]; ok {
			fmt.Fprintf(&c.sb, "^%d", id)
			return
		}
		id := len(c.ids)
		c.ids[k] = id
		fmt.Fprintf(&c.sb, "{%d:", id)
		if !c.o.Norm {
			c.sb.WriteString(t.String())
			c.sb.WriteString(":")
		}
		type kv struct {
			ks string
			k  reflect.Value
		}
		keys := v.MapKeys()
		kvs := make([]kv, len(keys))
		for i, mk := range keys {
			kvs[i] = kv{keyString(mk, c.o), mk}
		}
		sort.Slice(kvs, func(i, j int) bool { return kvs[i].ks < kvs[j].ks })
		for i, e := range kvs {
			if i > 0 {
				c.sb.WriteByte(',')
			}
			c.sb.WriteString(e.ks)
			c.sb.WriteString("=>")
			c.walk(v.MapIndex(e.k), false)
		}
		c.sb.WriteByte('}')
	case reflect.Struct:
		if t == timeType {
			tm := v.Interface().(time.Time)
			if tm.IsZero() && c.o.Norm {
				c.sb.WriteString("nil") // the zero timestamp is carried as null
			} else if tm.IsZero() {
				c.sb.WriteString("t:zero")
			} else if c.o.Norm {
				fmt.Fprintf(&c.sb, "t:%d", tm.UnixNano()/int64(time.Millisecond))
			} else {
				fmt.Fprintf(&c.sb, "t:%dns", tm.UnixNano())
			}
			return
		}
		if t.PkgPath() == "reflect" && t.Name() == "Value" {
			c.sb.WriteString("<reflect.Value>")
			return
		}
		c.sb.WriteString(t.String())
		c.sb.WriteByte('{')
		for i := 0; i < v.NumField(); i++ {
			if i > 0 {
				c.sb.WriteByte(',')
			}
			f := v.Field(i)
			c.sb.WriteString(t.Field(i).Name)
			c.sb.WriteByte(':')
			if !f.CanInterface() {
				c.sb.WriteString("<unexported>")
				continue
			}
			c.walk(f, false)
		}
		c.sb.WriteByte('}')
	case reflect.Chan, reflect.Func, reflect.UnsafePointer:
		fmt.Fprintf(&c.sb, "<%s>", v.Kind())
	case reflect.Complex64, reflect.Complex128:
		fmt.Fprintf(&c.sb, "c:%v", v.Complex())
	default:
		fmt.Fprintf(&c.sb, "<?%s>", v.Kind())
	}
}

// keyString renders a map key without touching the id table (keys are scalars / strings in the zoo;
// anything else is rendered by a throw-away canoner).
func keyString(k reflect.Value, o CanonOpts) string {
	// a key that is itself a container (possible in a decoded map[interface{}]interface{}: a pointer to a
	// map, even to the map that holds it) is rendered by type only: walking it here, without the caller's
	// id table, would not terminate on cyclic keys
	kk := k
	for kk.IsValid() && kk.Kind() == reflect.Interface && !kk.IsNil() {
		kk = kk.Elem()
	}
	if kk.IsValid() {
		switch kk.Kind() {
		case reflect.Ptr, reflect.Map, reflect.Slice, reflect.Array, reflect.Struct:
			if kk.Type() != timeType {
				return "<key:" + kk.Type().String() + ">"
			}
		}
	}
	c := &canoner{o: o, ids: map[canonKey]int{}, maxNodes: 100000}
	c.walk(k, false)
	return c.sb.String()
}

// EqNorm reports whether got equals orig up to the documented normalisations, and the carrier met in got.
func EqNorm(orig, got interface{}) (bool, string, string, string) {
	a, _ := Canon(orig, CanonOpts{Norm: true})
	b, carrier := Canon(got, CanonOpts{Norm: true})
	return a == b, a, b, carrier
}

func clip(s string, n int) string {
	if len(s) <= n {
		return s
	}
	return s[:n] + fmt.Sprintf("...(+%d)", len(s)-n)
}

// firstDiff returns a short window around the first differing position of two strings.
func firstDiff(a, b string) string {
	i := 0
	for i < len(a) && i < len(b) && a[i] == b[i] {
		i++
	}
	lo := i - 40
	if lo < 0 {
		lo = 0
	}
	ha, hb := i+60, i+60
	if ha > len(a) {
		ha = len(a)
	}
	if hb > len(b) {
		hb = len(b)
	}
	return fmt.Sprintf("at %d: want …%s… got …%s…", i, a[lo:ha], b[lo:hb])
}
