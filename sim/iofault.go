package sim

// Simulated I/O: the destination writer (C15, C11) and the byte transport (C14, C11).

import (
	"bytes"
	"errors"
	"fmt"
	"io"
	"unicode/utf8"
)

// ---- fault-injecting writer -------------------------------------------------------------------

type WFault int

const (
	WNone         WFault = iota
	WErrOnce             // (0, err) at call k only
	WErrSticky           // (0, err) at call k and every later call
	WShortErr            // (m < len, io.ErrShortWrite) at call k
	WShortNil            // (m < len, nil) at call k: a short count without an error
	WShortOneNil         // (len-1, nil) at call k: short by exactly one byte, no error
	WErrEOF              // (0, io.EOF) at call k only: an error value that reading code often treats as "done"
	WErrTemporary        // (0, err with Temporary() == true) at call k only
	WErrWrapper          // (0, a wrapper error whose Unwrap() returns nil) at call k only
	WFullCountErr        // (len(p), err) at call k only: every byte taken, yet an error is reported
	nWFault
)

// wrapErr is a wrapper error with an optional cause that happens to be absent (like an *os.SyscallError
// or a custom transport error built without an inner error).
type wrapErr struct{ cause error }

func (e *wrapErr) Error() string { return "injected wrapper failure" }
func (e *wrapErr) Unwrap() error { return e.cause }

// tempErr is an error that claims to be temporary (like a net.Error after a deadline).
type tempErr struct{}

func (tempErr) Error() string   { return "injected temporary failure" }
func (tempErr) Temporary() bool { return true }
func (tempErr) Timeout() bool   { return true }

func (k WFault) String() string {
	return [...]string{"none", "err-once", "err-sticky", "short+ErrShortWrite", "short+nil", "short-by-one+nil", "err-once(io.EOF)", "err-once(temporary)", "err-once(wrapper without cause)", "full count + error"}[k]
}

var errInjected = errors.New("injected writer failure")

type FaultyWriter struct {
	Sink    bytes.Buffer
	Calls   int
	FaultAt int // 1-based index of the Write call that faults; 0 = never
	Kind    WFault
	Fired   int   // number of Write calls that were faulted
	FiredAt []int // call indices
	Sites   []int32
	Lens    []int
	site    func() int32
}

func (w *FaultyWriter) Write(p []byte) (int, error) {
	w.Calls++
	if w.site != nil {
		w.Sites = append(w.Sites, w.site())
	}
	w.Lens = append(w.Lens, len(p))
	hit := w.FaultAt > 0 && (w.Calls == w.FaultAt || (w.Kind == WErrSticky && w.Calls > w.FaultAt))
	if hit {
		switch w.Kind {
		case WErrOnce, WErrSticky:
			w.Fired++
			w.FiredAt = append(w.FiredAt, w.Calls)
			return 0, errInjected
		case WErrEOF:
			w.Fired++
			w.FiredAt = append(w.FiredAt, w.Calls)
			return 0, io.EOF
		case WErrTemporary:
			w.Fired++
			w.FiredAt = append(w.FiredAt, w.Calls)
			return 0, tempErr{}
		case WErrWrapper:
			w.Fired++
			w.FiredAt = append(w.FiredAt, w.Calls)
			return 0, &wrapErr{}
		case WFullCountErr:
			w.Sink.Write(p)
			w.Fired++
			w.FiredAt = append(w.FiredAt, w.Calls)
			return len(p), errInjected
		case WShortErr, WShortNil, WShortOneNil:
			if len(p) == 0 {
				break // a zero-length write cannot be short; nothing fires
			}
			m := len(p) / 2
			if w.Kind == WShortOneNil {
				m = len(p) - 1
			}
			w.Sink.Write(p[:m])
			w.Fired++
			w.FiredAt = append(w.FiredAt, w.Calls)
			if w.Kind == WShortErr {
				return m, io.ErrShortWrite
			}
			return m, nil
		}
	}
	return w.Sink.Write(p)
}

// RichFaultyWriter is a FaultyWriter that also offers the optional interfaces a library may probe a
// destination for (io.ByteWriter, io.StringWriter, Flush() error - as *bufio.Writer does). Every byte still
// goes through the same faulting Write; Flush never fails (so a failure can only come from a write).
type RichFaultyWriter struct {
	*FaultyWriter
	Flushes int
}

func (w *RichFaultyWriter) WriteByte(c byte) error {
	n, err := w.FaultyWriter.Write([]byte{c})
	if err == nil && n < 1 {
		return io.ErrShortWrite
	}
	return err
}

func (w *RichFaultyWriter) WriteString(s string) (int, error) {
	return w.FaultyWriter.Write([]byte(s))
}

func (w *RichFaultyWriter) Flush() error {
	w.Flushes++
	return nil
}

// ---- faulty transport ------------------------------------------------------------------------

type TFaultKind int

const (
	TCut    TFaultKind = iota // peer crash: EOF after Off bytes
	TReset                    // non-EOF error after Off bytes (sticky)
	TFlip                     // byte at Off ^= Mask (Mask != 0)
	TSet                      // byte at Off = Mask
	TDrop                     // remove Len bytes at Off
	TDup                      // duplicate Len bytes at Off
	TSwap                     // swap two adjacent ranges of Len bytes at Off
	TInsert                   // insert Bytes at Off
	TNoise                    // replace everything by Bytes
	TStall                    // after Off bytes every read fails with a temporary error, forever (a peer that went silent past the read deadline)
	nTFault
)

func (k TFaultKind) String() string {
	return [...]string{"cut", "reset", "flip", "set", "drop", "dup", "swap", "insert", "noise", "stall"}[k]
}

type TFault struct {
	Kind  TFaultKind
	Off   int
	Len   int
	Mask  byte
	Bytes []byte
}

func (f TFault) String() string {
	switch f.Kind {
	case TCut, TReset, TStall:
		return fmt.Sprintf("%s@%d", f.Kind, f.Off)
	case TFlip, TSet:
		return fmt.Sprintf("%s@%d:%02x", f.Kind, f.Off, f.Mask)
	case TDrop, TDup, TSwap:
		return fmt.Sprintf("%s@%d+%d", f.Kind, f.Off, f.Len)
	default:
		return fmt.Sprintf("%s@%d:%x", f.Kind, f.Off, f.Bytes)
	}
}

var errReset = errors.New("injected transport reset")

// ApplyPlan damages data per plan. It returns the delivered bytes, the error the transport reports
// after them (io.EOF or errReset) and, per plan entry, whether it actually changed the stream.
func ApplyPlan(data []byte, plan []TFault) (out []byte, tail error, fired []bool) {
	out = append([]byte(nil), data...)
	tail = io.EOF
	fired = make([]bool, len(plan))
	for i, f := range plan {
		n := len(out)
		switch f.Kind {
		case TFlip:
			if f.Off < n && f.Mask != 0 {
				out[f.Off] ^= f.Mask
				fired[i] = true
			}
		case TSet:
			if f.Off < n && out[f.Off] != f.Mask {
				out[f.Off] = f.Mask
				fired[i] = true
			}
		case TDrop:
			if f.Off < n && f.Len > 0 {
				e := f.Off + f.Len
				if e > n {
					e = n
				}
				out = append(out[:f.Off:f.Off], out[e:]...)
				fired[i] = true
			}
		case TDup:
			if f.Off < n && f.Len > 0 {
				e := f.Off + f.Len
				if e > n {
					e = n
				}
				seg := append([]byte(nil), out[f.Off:e]...)
				out = append(out[:e:e], append(seg, out[e:]...)...)
				fired[i] = true
			}
		case TSwap:
			if f.Len > 0 && f.Off+2*f.Len <= n {
				a := append([]byte(nil), out[f.Off:f.Off+f.Len]...)
				b := append([]byte(nil), out[f.Off+f.Len:f.Off+2*f.Len]...)
				if !bytes.Equal(a, b) {
					copy(out[f.Off:], b)
					copy(out[f.Off+f.Len:], a)
					fired[i] = true
				}
			}
		case TInsert:
			if f.Off <= n && len(f.Bytes) > 0 {
				out = append(out[:f.Off:f.Off], append(append([]byte(nil), f.Bytes...), out[f.Off:]...)...)
				fired[i] = true
			}
		case TNoise:
			out = append([]byte(nil), f.Bytes...)
			fired[i] = true
		}
	}
	// cuts and resets last, on the damaged stream
	for i, f := range plan {
		switch f.Kind {
		case TCut:
			if f.Off < len(out) {
				out = out[:f.Off]
				fired[i] = true
			}
		case TReset:
			if f.Off <= len(out) {
				out = out[:f.Off]
				tail = errReset
				fired[i] = true
			}
		case TStall:
			if f.Off <= len(out) {
				out = out[:f.Off]
				tail = tempErr{}
				fired[i] = true
			}
		}
	}
	return out, tail, fired
}

// SimReader is the reader side of the transport: it hands out data, then reports tail forever.
// It has no read-ahead, so Consumed is exactly what the decoder has taken. It can cap every
// Read at a drawn number of bytes (short reads).
type SimReader struct {
	Data       []byte
	Pos        int
	Tail       error
	Cap        func() int // nil = no cap; otherwise the max bytes of the next Read (>= 1)
	ReadsAfter int        // calls made after the tail was first reported
	tailSeen   bool
	Reads      int
	// ZeroEvery > 0: every ZeroEvery-th Read call returns (0, nil) - legal for an io.Reader, never twice in a row
	ZeroEvery int
	ZeroReads int
}

func NewSimReader(data []byte, tail error) *SimReader {
	if tail == nil {
		tail = io.EOF
	}
	return &SimReader{Data: data, Tail: tail}
}

func (r *SimReader) Read(p []byte) (int, error) {
	r.Reads++
	if len(p) == 0 {
		return 0, nil
	}
	if r.ZeroEvery > 0 && r.Reads%r.ZeroEvery == 0 && r.Pos < len(r.Data) {
		r.ZeroReads++
		return 0, nil
	}
	if r.Pos >= len(r.Data) {
		if r.tailSeen {
			r.ReadsAfter++
		}
		r.tailSeen = true
		return 0, r.Tail
	}
	n := len(r.Data) - r.Pos
	if n > len(p) {
		n = len(p)
	}
	if r.Cap != nil {
		if c := r.Cap(); c >= 1 && c < n {
			n = c
		}
	}
	copy(p, r.Data[r.Pos:r.Pos+n])
	r.Pos += n
	return n, nil
}

func (r *SimReader) ReadRune() (rune, int, error) {
	r.Reads++
	if r.Pos >= len(r.Data) {
		if r.tailSeen {
			r.ReadsAfter++
		}
		r.tailSeen = true
		return 0, 0, r.Tail
	}
	b := r.Data[r.Pos]
	if b < utf8.RuneSelf {
		r.Pos++
		return rune(b), 1, nil
	}
	// like bufio.Reader.ReadRune: decode what is there; an incomplete or invalid sequence yields
	// (RuneError, 1)
	ru, size := utf8.DecodeRune(r.Data[r.Pos:])
	r.Pos += size
	return ru, size, nil
}

func (r *SimReader) Consumed() int { return r.Pos }
