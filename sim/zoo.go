package sim

// The value zoo: a fixed set of Go types (types cannot be generated at run time) and a
// generator that fills them from the choice stream. 0 is always the simplest choice.

import (
	"fmt"
	"os"
	"reflect"
	"sort"
	"strings"
	"time"
	"unicode/utf8"

	hessian "github.com/vogo/gohessian"
)

// ---- types -----------------------------------------------------------------------------------

type Scalars struct {
	B   bool
	I8  int8
	I16 int16
	I32 int32
	I   int
	I64 int64
	U8  uint8
	U16 uint16
	U32 uint32
	U   uint
	U64 uint64
	F32 float32
	F64 float64
	S   string
	Bin []byte
	T   time.Time
}

type Node struct {
	Id    int32
	Name  string
	Next  *Node
	Prev  *Node
	Kids  []*Node
	Tags  []string
	Attr  map[string]string
	Links map[string]*Node
	When  time.Time
	Blob  []byte
	Nums  []int32
}

type Base struct {
	Code  int32
	Label string
}

type Emb struct {
	Base
	Extra string
	Inner Base
	PBase *Base
}

type Named struct {
	Key   string
	Value string
	N     int64
}

func (Named) HessianCodecName() string { return "com.example.verif.Named" }

type Lists struct {
	I32s  []int32
	I64s  []int64
	F64s  []float64
	Strs  []string
	Bools []bool
	Times []time.Time
	Bins  [][]byte
	Ptrs  []*K00
	Vals  []K01
}

type Maps struct {
	SS   map[string]string
	SI   map[string]int32
	SL   map[string]int64
	SF   map[string]float64
	SB   map[string]bool
	SP   map[string]*K02
	IS   map[int32]string
	LS   map[int64]string
	SBin map[string][]byte
}

// Named container types: a named map type is written as a typed map ('M' type ...), a named slice type as
// a typed list carrying its own name.
type Labels map[string]string
type IDs []int32

type Tagged struct {
	L Labels
	I IDs
	N int32
	P *K00
}

// MapsOdd has map fields whose key / element kinds differ from the wire kinds (int, float32, int8, uint16).
// The library cannot decode them today (a reflect assignment error), so the strict-oracle domain excludes
// the type; the differential and robustness checks use it.
type MapsOdd struct {
	SI   map[string]int
	SF32 map[string]float32
	I8S  map[int8]string
	SU16 map[string]uint16
	N    int32
}

// Bag holds untyped containers. It is part of the type/name maps (so that list type names map to
// []interface{} and map[string]interface{}), is used by hand-built peer streams, and is drawn by the
// value generator when the domain has Untyped set (dynamic element values: see Gen.dyn).
type Bag struct {
	Items []interface{}
	Other []int32
	M     map[string]interface{}
}

// Twenty-four small distinct classes, so that a stream can hold class indices >= 16.
type K00 struct {
	A int32
	S string
}
type K01 struct {
	A int32
	S string
}
type K02 struct {
	A int32
	S string
}
type K03 struct {
	A int64
	S string
}
type K04 struct {
	F float64
	S string
}
type K05 struct {
	B bool
	S string
}
type K06 struct {
	Bin []byte
	A   int32
}
type K07 struct {
	T time.Time
	A int32
}
type K08 struct {
	P *K00
	A int32
}
type K09 struct{ L []int32 }
type K10 struct{ A int32 }
type K11 struct{ A int32 }
type K12 struct{ A int32 }
type K13 struct{ A int32 }
type K14 struct{ A int32 }
type K15 struct{ A int32 }
type K16 struct{ A int32 }
type K17 struct{ A int32 }
type K18 struct {
	A int32
	S string
}
type K19 struct {
	A int32
	P *K18
}
type K20 struct{ S string }
type K21 struct{ S string }
type K22 struct{ S string }
type K23 struct{ S string }

// Odd: a struct without fields (by value, by pointer, in a list of pointers) and field names that are not
// plain lower-camel-case ASCII. (No []Empty: every slice of zero-size elements has the same data pointer,
// i.e. is "the same slice in two places", which the strict domain excludes - C04.)
type Empty struct{}
type OddNames struct {
	X_y   int32
	Ärger string
	URL   string
	ID    int32
}
type Odd struct {
	E     Empty
	P     *Empty
	LP    []*Empty
	N     OddNames
	After int32
}

// Wide has enough fields to make write counts and cut offsets interesting.
type Wide struct {
	A0, A1, A2, A3 int32
	S0, S1         string
	L0             int64
	D0             float64
	B0             bool
	N0             *Node
	K              *K05
	M              map[string]int32
	Z              []string
}

var kTypes = []reflect.Type{
	reflect.TypeOf(K00{}), reflect.TypeOf(K01{}), reflect.TypeOf(K02{}), reflect.TypeOf(K03{}),
	reflect.TypeOf(K04{}), reflect.TypeOf(K05{}), reflect.TypeOf(K06{}), reflect.TypeOf(K07{}),
	reflect.TypeOf(K08{}), reflect.TypeOf(K09{}), reflect.TypeOf(K10{}), reflect.TypeOf(K11{}),
	reflect.TypeOf(K12{}), reflect.TypeOf(K13{}), reflect.TypeOf(K14{}), reflect.TypeOf(K15{}),
	reflect.TypeOf(K16{}), reflect.TypeOf(K17{}), reflect.TypeOf(K18{}), reflect.TypeOf(K19{}),
	reflect.TypeOf(K20{}), reflect.TypeOf(K21{}), reflect.TypeOf(K22{}), reflect.TypeOf(K23{}),
}

var bigTypes = []reflect.Type{
	reflect.TypeOf(Scalars{}), reflect.TypeOf(Node{}), reflect.TypeOf(Emb{}), reflect.TypeOf(Named{}),
	reflect.TypeOf(Lists{}), reflect.TypeOf(Maps{}), reflect.TypeOf(Wide{}), reflect.TypeOf(Tagged{}), reflect.TypeOf(MapsOdd{}), reflect.TypeOf(Bag{}), reflect.TypeOf(Odd{}),
}

// ---- type map / name map ---------------------------------------------------------------------

var (
	ZooTypeMap map[string]reflect.Type
	ZooNameMap map[string]string
)

// witness returns a fully populated value that mentions every zoo type, as the README recommends
// for ExtractTypeNameMap.
func witness() interface{} {
	type all struct {
		S  *Scalars
		N  *Node
		E  *Emb
		Nm *Named
		L  *Lists
		M  *Maps
		W  *Wide
		Bg *Bag
		Tg *Tagged
		Mo *MapsOdd
		Od *Odd
		// struct types must be reachable through typed fields (an interface{} element hides them
		// from the extraction)
		K00 *K00
		K01 *K01
		K02 *K02
		K03 *K03
		K04 *K04
		K05 *K05
		K06 *K06
		K07 *K07
		K08 *K08
		K09 *K09
		K10 *K10
		K11 *K11
		K12 *K12
		K13 *K13
		K14 *K14
		K15 *K15
		K16 *K16
		K17 *K17
		K18 *K18
		K19 *K19
		K20 *K20
		K21 *K21
		K22 *K22
		K23 *K23
	}
	n := &Node{Id: 1, Name: "w", Tags: []string{"t"}, Attr: map[string]string{"a": "b"}, When: time.Unix(1, 0), Blob: []byte{1}, Nums: []int32{1}}
	n.Next = n
	n.Prev = n
	n.Kids = []*Node{n}
	n.Links = map[string]*Node{"x": n}
	w := &all{
		S:  &Scalars{S: "x", Bin: []byte{1}, T: time.Unix(1, 0)},
		N:  n,
		E:  &Emb{Base: Base{1, "b"}, Extra: "e", Inner: Base{2, "i"}, PBase: &Base{3, "p"}},
		Nm: &Named{"k", "v", 1},
		L: &Lists{I32s: []int32{1}, I64s: []int64{1}, F64s: []float64{1.5}, Strs: []string{"s"}, Bools: []bool{true},
			Times: []time.Time{time.Unix(1, 0)}, Bins: [][]byte{{1}}, Ptrs: []*K00{{1, "a"}}, Vals: []K01{{1, "a"}}},
		M: &Maps{SS: map[string]string{"a": "b"}, SI: map[string]int32{"a": 1}, SL: map[string]int64{"a": 1}, SF: map[string]float64{"a": 1.5},
			SB: map[string]bool{"a": true}, SP: map[string]*K02{"a": {1, "x"}}, IS: map[int32]string{1: "a"}, LS: map[int64]string{1: "a"},
			SBin: map[string][]byte{"a": {1}}},
		W:  &Wide{S0: "a", S1: "b", N0: n, K: &K05{true, "k"}, M: map[string]int32{"a": 1}, Z: []string{"z"}},
		Mo: &MapsOdd{SI: map[string]int{"a": 1}, SF32: map[string]float32{"a": 1.5}, I8S: map[int8]string{1: "a"}, SU16: map[string]uint16{"a": 1}, N: 1},
		Tg: &Tagged{L: Labels{"a": "b"}, I: IDs{1}, N: 1, P: &K00{1, "a"}},
		Bg: &Bag{Items: []interface{}{int32(1)}, Other: []int32{1}, M: map[string]interface{}{"a": int32(1)}},
		Od: &Odd{P: &Empty{}, LP: []*Empty{{}}, N: OddNames{1, "a", "u", 2}, After: 1},
	}
	fillWitness(reflect.ValueOf(w).Elem())
	return w
}

func fillWitness(v reflect.Value) {
	for i := 0; i < v.NumField(); i++ {
		f := v.Field(i)
		switch f.Kind() {
		case reflect.String:
			if f.String() == "" {
				f.SetString("w")
			}
		case reflect.Ptr:
			if !f.IsNil() {
				continue
			}
			p := reflect.New(f.Type().Elem())
			fillWitness(p.Elem())
			f.Set(p)
		case reflect.Slice:
			if !f.IsNil() {
				continue
			}
			if f.Type().Elem().Kind() == reflect.Uint8 {
				f.SetBytes([]byte{1})
			} else {
				f.Set(reflect.MakeSlice(f.Type(), 1, 1))
			}
		case reflect.Struct:
			if f.Type() == timeType {
				f.Set(reflect.ValueOf(time.Unix(1, 0)))
			}
		case reflect.Map:
			// left as is: the hand-written witnesses above populate every map
		}
	}
}

// InitZooMaps extracts the maps once per process, the recommended way, and checks they are complete.
func InitZooMaps() error {
	tm, nm := hessian.ExtractTypeNameMap(witness())
	for _, t := range append(append([]reflect.Type{}, kTypes...), bigTypes...) {
		name := t.Name()
		wire, ok := nm[name]
		if !ok {
			return fmt.Errorf("name map lacks %s", name)
		}
		if tm[wire] != t {
			return fmt.Errorf("type map: %s -> %v, want %v", wire, tm[wire], t)
		}
	}
	ZooTypeMap, ZooNameMap = tm, nm
	return nil
}

// mapsDigest is a canonical rendering of both maps (used in fingerprints and snapshots).
func mapsDigest(tm map[string]reflect.Type, nm map[string]string) string {
	var ks []string
	for k, v := range tm {
		if v == nil {
			ks = append(ks, "T "+k+" -> <nil>")
			continue
		}
		ks = append(ks, "T "+k+" -> "+v.String())
	}
	for k, v := range nm {
		ks = append(ks, "N "+k+" -> "+v)
	}
	sort.Strings(ks)
	s := ""
	for _, k := range ks {
		s += k + "\n"
	}
	return s
}

// ---- generator -------------------------------------------------------------------------------

// Domain switches generator features. The defaults describe the value domain the strict
// "equals the original" oracle of C06 is applied to (DESIGN.md section 5); the differential oracles
// (C11, C12) and the robustness checks (C14, C15) may use the wider settings.
type Domain struct {
	EmptyStringElems bool // "" as list element / map key / map value
	NilPtrElems      bool // nil pointer inside a list or as map value
	ZeroTimeElems    bool // zero time inside a list
	BigStrings       bool // strings around the chunk size
	BigBinaries      bool // byte slices around the chunk size
	FarDates         bool // dates outside 1970..2038 / sub-second before the epoch
	WideInts         bool // int/uint values outside the wire type of their kind
	AllDoubles       bool // any float64 bit pattern (NaN, inf, subnormal)
	SharedSlices     bool // the same slice/map object in two places
	OddMaps          bool // maps whose key / element kinds differ from the wire kinds (type MapsOdd)
	Untyped          bool // untyped containers ([]interface{}, map[string]interface{}: type Bag) with dynamic elements
	HugeLists        bool // now and then a list of 4095..20000 cheap elements (beyond any pre-allocation cap / growth step)
	LooseDyn         bool // dynamic elements whose type does not survive a round trip (typed slices, maps at interface positions)
	MaxListLen       int
	MaxMapLen        int
}

func CoreDomain() Domain {
	d := Domain{Untyped: true, HugeLists: true, EmptyStringElems: true, NilPtrElems: true, ZeroTimeElems: true, FarDates: true, BigStrings: true, BigBinaries: true, AllDoubles: true, MaxListLen: 40, MaxMapLen: 6}
	// development aid: VF_DOMAIN=EmptyStringElems,FarDates,... switches excluded features on, to find out
	// whether they (still) fail; registered checks never set it
	for _, f := range strings.Split(os.Getenv("VF_DOMAIN"), ",") {
		switch f {
		case "EmptyStringElems":
			d.EmptyStringElems = true
		case "NilPtrElems":
			d.NilPtrElems = true
		case "ZeroTimeElems":
			d.ZeroTimeElems = true
		case "FarDates":
			d.FarDates = true
		case "WideInts":
			d.WideInts = true
		case "SharedSlices":
			d.SharedSlices = true
		}
	}
	return d
}

type Gen struct {
	ch     *Choices
	dom    Domain
	nodes  []*Node // nodes created so far on this stream (targets for back-references)
	k0s    []*K00
	nextID int32
	size   int // soft budget of generated "atoms" per value
	huge   int // huge lists generated so far
	used   map[string]int
}

func NewGen(ch *Choices, dom Domain) *Gen {
	return &Gen{ch: ch, dom: dom, used: map[string]int{}}
}

func (g *Gen) note(s string) { g.used[s]++ }

var sampleRunes = []rune{'a', 'Z', '0', ' ', 'é', 'ß', '中', '文', '€', '😀', '𝄞', '\n', 0x7f, 0x80, 0x7ff, 0x800, 0xffff, 0x10000, 0x10ffff}

func (g *Gen) str(allowEmpty bool) string {
	k := g.ch.Pick([]int{30, 30, 20, 6, 6, 3}, "str.kind")
	var n int
	switch k {
	case 0:
		n = g.ch.Range(1, 4, "str.len")
	case 1:
		n = g.ch.Range(0, 31+3, "str.len") // around the short form limit
	case 2:
		n = g.ch.Range(28, 40, "str.len")
	case 3:
		n = g.ch.Range(1020, 1030, "str.len") // around the middle form limit
	case 4:
		if g.dom.BigStrings {
			n = 2048 + g.ch.Range(-3, 3, "str.len")
			g.note("str.chunk")
		} else {
			n = 5
		}
	case 5:
		if g.dom.BigStrings {
			n = 2*2048 + g.ch.Range(-2, 40, "str.len")
			g.note("str.chunk2")
		} else {
			n = 7
		}
	}
	if n == 0 && !allowEmpty {
		n = 1
	}
	if n == 0 {
		return ""
	}
	rs := make([]rune, n)
	wide := g.ch.Intn(4, "str.wide") // 0: ascii only
	base := rune('a' + g.ch.Intn(26, "str.base"))
	for i := range rs {
		rs[i] = base
	}
	if wide > 0 {
		// sprinkle a few multi-byte runes at drawn positions (incl. the ends, i.e. chunk boundaries)
		m := g.ch.Range(1, 4, "str.nwide")
		for j := 0; j < m; j++ {
			var p int
			switch g.ch.Intn(3, "str.wpos") {
			case 0:
				p = g.ch.Intn(n, "str.wposv")
			case 1:
				p = n - 1 - g.ch.Intn(minInt(n, 3), "str.wposv")
			case 2:
				p = (2047 + g.ch.Intn(3, "str.wposv")) % n
			}
			rs[p] = sampleRunes[g.ch.Intn(len(sampleRunes), "str.rune")]
			g.note("str.multibyte")
		}
	}
	s := string(rs)
	if !utf8.ValidString(s) {
		panic("generator produced invalid utf8")
	}
	return s
}

func minInt(a, b int) int {
	if a < b {
		return a
	}
	return b
}

func (g *Gen) bin() []byte {
	k := g.ch.Pick([]int{40, 30, 15, 8, 7}, "bin.kind")
	var n int
	switch k {
	case 0:
		n = g.ch.Range(1, 6, "bin.len")
	case 1:
		n = g.ch.Range(0, 18, "bin.len")
	case 2:
		n = g.ch.Range(250, 260, "bin.len")
	case 3:
		if g.dom.BigBinaries {
			n = 4096 + g.ch.Range(-2, 2, "bin.len")
			g.note("bin.chunk")
		} else {
			n = 3
		}
	case 4:
		if g.dom.BigBinaries {
			n = 2*4096 + g.ch.Range(-1, 20, "bin.len")
			g.note("bin.chunk2")
		} else {
			n = 4
		}
	}
	if n == 0 {
		return nil
	}
	b := make([]byte, n)
	fill := byte(g.ch.Intn(256, "bin.fill"))
	for i := range b {
		b[i] = fill + byte(i)
	}
	// a few bytes that look like tags
	b[0] = byte(g.ch.Intn(256, "bin.b0"))
	return b
}

var intEdges32 = []int64{0, 1, -1, 47, 48, -16, -17, 2047, 2048, -2048, -2049, 262143, 262144, -262144, -262145, 1<<31 - 1, -1 << 31}
var intEdges64 = []int64{0, 1, -1, 15, 16, -8, -9, 2047, 2048, -2048, -2049, 262143, 262144, -262144, -262145, 1<<31 - 1, 1 << 31, -1 << 31, -1<<31 - 1, 1<<63 - 1, -1 << 63}

func (g *Gen) int64In(lo, hi int64, edges []int64) int64 {
	switch g.ch.Pick([]int{50, 30, 20}, "int.kind") {
	case 0:
		v := int64(g.ch.Intn(100, "int.small")) - 20
		if v < lo {
			v = lo
		}
		if v > hi {
			v = hi
		}
		return v
	case 1:
		for tries := 0; tries < 4; tries++ {
			v := edges[g.ch.Intn(len(edges), "int.edge")]
			if v >= lo && v <= hi {
				return v
			}
		}
		return 0
	default:
		u := g.ch.Uint64("int.any")
		span := uint64(hi-lo) + 1
		if span == 0 {
			return int64(u)
		}
		return lo + int64(u%span)
	}
}

func (g *Gen) float() float64 {
	switch g.ch.Pick([]int{30, 25, 20, 15, 10}, "f.kind") {
	case 0:
		return float64(g.ch.Intn(10, "f.small"))
	case 1:
		return float64(g.int64In(-70000, 70000, []int64{0, 1, -1, 127, 128, -128, -129, 32767, 32768, -32768, -32769, 2, 100}))
	case 2:
		return float64(g.ch.Intn(2000, "f.frac"))/8 - 100 // exactly representable fractions
	case 3:
		return float64(g.int64In(-1<<40, 1<<40, intEdges64)) * 1.5
	default:
		if g.dom.AllDoubles {
			g.note("f.bits")
			return float64frombits(g.ch.Uint64("f.bits"))
		}
		return 0.1
	}
}

func (g *Gen) time() time.Time {
	switch g.ch.Pick([]int{40, 30, 30}, "t.kind") {
	case 0:
		return time.Unix(int64(g.ch.Intn(2_000_000_000, "t.sec"))+1, 0)
	case 1:
		return time.Unix(int64(g.ch.Intn(2_000_000_000, "t.sec"))+1, int64(g.ch.Range(1, 999, "t.ms"))*int64(time.Millisecond))
	default:
		if g.dom.FarDates {
			g.note("t.far")
			ms := g.int64In(-62135596800000, 253402300799000, []int64{0, -1, 1, -1000, 1 << 31 * 1000, -(1 << 31) * 1000})
			return time.Unix(ms/1000, (ms%1000)*int64(time.Millisecond))
		}
		return time.Unix(1_700_000_000, 500*int64(time.Millisecond))
	}
}

func (g *Gen) listLen() int {
	max := g.dom.MaxListLen
	if max <= 0 {
		max = 8
	}
	switch g.ch.Pick([]int{50, 30, 20}, "list.kind") {
	case 0:
		return g.ch.Range(0, 3, "list.len")
	case 1:
		return g.ch.Range(0, minInt(max, 10), "list.len") // crosses the 7/8 short-form limit
	default:
		return g.ch.Range(0, max, "list.len")
	}
}

// fill sets every field of the struct value sv (addressable).
func (g *Gen) fill(sv reflect.Value, depth int) {
	t := sv.Type()
	for i := 0; i < sv.NumField(); i++ {
		f := sv.Field(i)
		g.fillValue(f, t.Field(i).Type, depth, false)
	}
}

func (g *Gen) fillValue(f reflect.Value, ft reflect.Type, depth int, elem bool) {
	switch ft.Kind() {
	case reflect.Bool:
		f.SetBool(g.ch.Intn(2, "bool") == 1)
	case reflect.Int8:
		f.SetInt(g.int64In(-128, 127, intEdges32))
	case reflect.Int16:
		f.SetInt(g.int64In(-32768, 32767, intEdges32))
	case reflect.Int32:
		f.SetInt(g.int64In(-1<<31, 1<<31-1, intEdges32))
	case reflect.Int:
		if g.dom.WideInts {
			f.SetInt(g.int64In(-1<<63, 1<<63-1, intEdges64))
		} else {
			f.SetInt(g.int64In(-1<<31, 1<<31-1, intEdges32))
		}
	case reflect.Int64:
		f.SetInt(g.int64In(-1<<63, 1<<63-1, intEdges64))
	case reflect.Uint8:
		f.SetUint(uint64(g.int64In(0, 255, intEdges32)))
	case reflect.Uint16:
		f.SetUint(uint64(g.int64In(0, 65535, intEdges32)))
	case reflect.Uint32:
		f.SetUint(uint64(g.int64In(0, 1<<32-1, intEdges64)))
	case reflect.Uint, reflect.Uint64:
		if g.dom.WideInts {
			f.SetUint(g.ch.Uint64("u64"))
		} else {
			f.SetUint(uint64(g.int64In(0, 1<<63-1, intEdges64)))
		}
	case reflect.Float32:
		switch g.ch.Intn(3, "f32.kind") {
		case 0:
			f.SetFloat(float64(g.ch.Intn(10, "f32.small")))
		case 1:
			f.SetFloat(float64(float32(g.float())))
		default:
			f.SetFloat(float64(float32frombits(uint32(g.ch.Uint64("f32.bits")))))
		}
	case reflect.Float64:
		f.SetFloat(g.float())
	case reflect.String:
		f.SetString(g.str(!elem || g.dom.EmptyStringElems))
	case reflect.Struct:
		if ft == timeType {
			if (!elem || g.dom.ZeroTimeElems) && g.ch.Intn(6, "t.zero") == 1 {
				return // zero time
			}
			f.Set(reflect.ValueOf(g.time()))
			return
		}
		g.fill(f, depth+1)
	case reflect.Ptr:
		et := ft.Elem()
		if et == reflect.TypeOf(Node{}) {
			f.Set(reflect.ValueOf(g.nodeRef(depth, elem)))
			return
		}
		if (!elem || g.dom.NilPtrElems) && g.ch.Intn(4, "ptr.nil") == 1 {
			return
		}
		if et == reflect.TypeOf(K00{}) && len(g.k0s) > 0 && g.ch.Intn(3, "k0.share") == 1 {
			f.Set(reflect.ValueOf(g.k0s[g.ch.Intn(len(g.k0s), "k0.which")]))
			g.note("share.k00")
			return
		}
		p := reflect.New(et)
		g.fill(p.Elem(), depth+1)
		if et == reflect.TypeOf(K00{}) {
			g.k0s = append(g.k0s, p.Interface().(*K00))
		}
		f.Set(p)
	case reflect.Slice:
		et := ft.Elem()
		if et.Kind() == reflect.Uint8 {
			b := g.bin()
			if b == nil && elem {
				b = []byte{7}
			}
			f.SetBytes(b)
			return
		}
		n := g.listLen()
		if g.dom.HugeLists && depth <= 1 && g.huge < 2 && cheapElem(et) && g.ch.Intn(40, "list.huge?") == 1 {
			// a list far longer than anything else in the zoo: decoders that pre-allocate up to a cap and
			// grow in steps take other paths beyond the cap
			n = hugeLens[g.ch.Intn(len(hugeLens), "list.hugelen")] + g.ch.Range(-1, 1, "list.hugeadj")
			g.huge++
			g.note("list.huge")
			sl := reflect.MakeSlice(ft, n, n)
			for i := 0; i < n; i++ {
				g.cheapFill(sl.Index(i), i)
			}
			f.Set(sl)
			return
		}
		if depth > 2 && n > 2 {
			n = 2
		}
		if n == 0 {
			if g.ch.Intn(2, "list.emptynonnil") == 1 {
				// an empty slice that is not nil (every such slice has the same data pointer)
				f.Set(reflect.MakeSlice(ft, 0, 0))
				g.note("list.emptynonnil")
			}
			return
		}
		sl := reflect.MakeSlice(ft, n, n)
		for i := 0; i < n; i++ {
			g.fillValue(sl.Index(i), et, depth+1, true)
		}
		f.Set(sl)
	case reflect.Map:
		max := g.dom.MaxMapLen
		if max <= 0 {
			max = 4
		}
		n := g.ch.Range(0, max, "map.len")
		if n == 0 {
			return
		}
		m := reflect.MakeMapWithSize(ft, n)
		for i := 0; i < n; i++ {
			k := reflect.New(ft.Key()).Elem()
			g.fillValue(k, ft.Key(), depth+1, true)
			v := reflect.New(ft.Elem()).Elem()
			g.fillValue(v, ft.Elem(), depth+1, true)
			m.SetMapIndex(k, v)
		}
		f.Set(m)
	case reflect.Interface:
		g.dyn(f, depth)
	default:
		panic("zoo: unsupported kind " + ft.Kind().String())
	}
}

var hugeLens = []int{4096, 8192, 8200, 9000, 9216, 12000, 16384, 17000, 20000}

func cheapElem(et reflect.Type) bool {
	switch et.Kind() {
	case reflect.Int8, reflect.Int16, reflect.Int32, reflect.Int, reflect.Int64, reflect.Bool, reflect.Float64, reflect.String, reflect.Interface:
		return true
	}
	return false
}

// cheapFill sets element i of a huge list without drawing: the content is a function of the index.
func (g *Gen) cheapFill(e reflect.Value, i int) {
	switch e.Kind() {
	case reflect.Int8, reflect.Int16, reflect.Int32, reflect.Int, reflect.Int64:
		e.SetInt(int64(i % 100))
	case reflect.Bool:
		e.SetBool(i%3 == 0)
	case reflect.Float64:
		e.SetFloat(float64(i%50) + 0.5)
	case reflect.String:
		e.SetString(string(rune('a' + i%26)))
	case reflect.Interface:
		switch i % 4 {
		case 0:
			e.Set(reflect.ValueOf(int32(i)))
		case 1:
			e.Set(reflect.ValueOf(string(rune('a' + i%26))))
		case 2:
			// nil
		default:
			e.Set(reflect.ValueOf(int64(i) << 33))
		}
	}
}

// dyn sets the interface-typed slot f (an element of an untyped list / a value of an untyped map) to a
// value of a drawn dynamic type. Only dynamic types that travel as themselves are drawn: the canonical
// wire scalars, byte slices, times, struct pointers (possibly the same pointer twice: a back-reference
// inside an untyped container), and nested untyped lists.
func (g *Gen) dyn(f reflect.Value, depth int) {
	g.note("untyped.elem")
	w := []int{14, 8, 8, 12, 6, 6, 6, 6, 12, 10, 12, 0, 0, 0}
	if g.dom.LooseDyn {
		w[11], w[12], w[13] = 6, 8, 6
	}
	if depth > 3 {
		w[10], w[12], w[13] = 0, 0, 0
	}
	switch g.ch.Pick(w, "dyn.kind") {
	case 0:
		f.Set(reflect.ValueOf(int32(g.int64In(-1<<31, 1<<31-1, intEdges32))))
	case 1:
		f.Set(reflect.ValueOf(g.int64In(-1<<63, 1<<63-1, intEdges64)))
	case 2:
		f.Set(reflect.ValueOf(g.float()))
	case 3:
		f.Set(reflect.ValueOf(g.str(g.dom.EmptyStringElems)))
	case 4:
		f.Set(reflect.ValueOf(g.ch.Intn(2, "bool") == 1))
	case 5:
		// nil element
	case 6:
		b := g.bin()
		if b == nil {
			b = []byte{7}
		}
		f.Set(reflect.ValueOf(b))
	case 7:
		f.Set(reflect.ValueOf(g.time()))
	case 8:
		p := reflect.New(reflect.TypeOf((*K00)(nil))).Elem()
		g.fillValue(p, p.Type(), depth+1, true)
		if !p.IsNil() {
			f.Set(p)
		}
	case 9:
		if n := g.nodeRef(depth+1, true); n != nil {
			f.Set(reflect.ValueOf(n))
		}
	case 10:
		n := g.ch.Range(0, 4, "dyn.list.len")
		l := make([]interface{}, n)
		for i := range l {
			g.dyn(reflect.ValueOf(l).Index(i), depth+1)
		}
		g.note("untyped.nestedlist")
		f.Set(reflect.ValueOf(l))
	case 11:
		// a typed slice at an interface position (comes back as []interface{})
		if g.ch.Intn(2, "dyn.typed") == 0 {
			l := make([]int32, g.ch.Range(1, 3, "dyn.list.len"))
			for i := range l {
				l[i] = int32(g.int64In(-1<<31, 1<<31-1, intEdges32))
			}
			f.Set(reflect.ValueOf(l))
		} else {
			l := make([]string, g.ch.Range(1, 3, "dyn.list.len"))
			for i := range l {
				l[i] = g.str(true)
			}
			f.Set(reflect.ValueOf(l))
		}
		g.note("untyped.typedslice")
	case 12:
		// an untyped string-keyed map at an interface position (comes back as map[interface{}]interface{})
		m := map[string]interface{}{}
		for i, n := 0, g.ch.Range(0, 3, "dyn.map.len"); i < n; i++ {
			var v interface{}
			g.dyn(reflect.ValueOf(&v).Elem(), depth+1)
			m[g.str(true)] = v
		}
		g.note("untyped.map")
		f.Set(reflect.ValueOf(m))
	case 13:
		// a map with keys of mixed dynamic types
		m := map[interface{}]interface{}{}
		for i, n := 0, g.ch.Range(0, 3, "dyn.map.len"); i < n; i++ {
			var k, v interface{}
			switch g.ch.Intn(3, "dyn.key") {
			case 0:
				k = g.str(true)
			case 1:
				k = int32(g.int64In(-1<<31, 1<<31-1, intEdges32))
			default:
				k = g.int64In(-1<<63, 1<<63-1, intEdges64)
			}
			g.dyn(reflect.ValueOf(&v).Elem(), depth+1)
			m[k] = v
		}
		g.note("untyped.mixedmap")
		f.Set(reflect.ValueOf(m))
	}
}

// nodeRef returns nil, an existing node (back-reference, possibly to a node of an earlier message
// or to a node still under construction = cycle) or a new node.
func (g *Gen) nodeRef(depth int, elem bool) *Node {
	w := []int{40, 30, 30}
	if depth > 3 {
		w = []int{60, 40, 0}
	}
	if elem && !g.dom.NilPtrElems {
		w[0] = 0
		if len(g.nodes) == 0 {
			w[2] = 1
		}
	}
	switch g.ch.Pick(w, "node.kind") {
	case 0:
		return nil
	case 1:
		if len(g.nodes) == 0 {
			if elem && !g.dom.NilPtrElems {
				return g.newNode(depth)
			}
			return nil
		}
		g.note("share.node")
		return g.nodes[len(g.nodes)-1-g.ch.Intn(len(g.nodes), "node.which")]
	default:
		return g.newNode(depth)
	}
}

func (g *Gen) newNode(depth int) *Node {
	n := &Node{}
	g.nextID++
	g.nodes = append(g.nodes, n) // registered before it is filled: cycles are possible
	g.fill(reflect.ValueOf(n).Elem(), depth+1)
	n.Id = g.nextID
	return n
}

// Top-level value kinds.
const (
	TopStruct = iota
	TopK
	TopScalar
	TopSharedNode
)

// Value generates one top-level value of the stream.
func (g *Gen) Value() interface{} {
	switch g.ch.Pick([]int{35, 35, 20, 10}, "top.kind") {
	case TopStruct:
		t := bigTypes[g.ch.Intn(len(bigTypes), "top.big")]
		if t == reflect.TypeOf(MapsOdd{}) && !g.dom.OddMaps {
			t = reflect.TypeOf(Maps{})
		}
		if t == reflect.TypeOf(Bag{}) && !g.dom.Untyped {
			t = reflect.TypeOf(Lists{})
		}
		if t == reflect.TypeOf(Node{}) {
			return g.newNode(0)
		}
		p := reflect.New(t)
		g.fill(p.Elem(), 0)
		g.note("top." + t.Name())
		return p.Interface()
	case TopK:
		t := kTypes[g.ch.Intn(len(kTypes), "top.k")]
		p := reflect.New(t)
		g.fill(p.Elem(), 0)
		if g.ch.Intn(4, "top.byvalue") == 1 {
			g.note("top.byvalue")
			return p.Elem().Interface() // a struct passed by value
		}
		return p.Interface()
	case TopScalar:
		switch g.ch.Intn(9, "top.scalar") {
		case 7:
			// a named map type at top level travels as a typed map ('M' type ... 'Z')
			m := Labels{}
			n := g.ch.Range(0, 4, "labels.n")
			for i := 0; i < n; i++ {
				m[g.str(true)] = g.str(true)
			}
			g.note("top.namedmap")
			return m
		case 8:
			// a named slice type at top level travels as a typed list carrying its own name
			n := g.listLen()
			l := make(IDs, n)
			for i := range l {
				l[i] = int32(g.int64In(-1<<31, 1<<31-1, intEdges32))
			}
			g.note("top.namedslice")
			return l
		case 0:
			return int32(g.int64In(-1<<31, 1<<31-1, intEdges32))
		case 1:
			return g.int64In(-1<<63, 1<<63-1, intEdges64)
		case 2:
			return g.float()
		case 3:
			return g.str(true)
		case 4:
			return g.ch.Intn(2, "bool") == 1
		case 5:
			b := g.bin()
			if b == nil {
				return []byte{}
			}
			return b
		default:
			return g.time()
		}
	default:
		if len(g.nodes) > 0 {
			g.note("top.sharednode")
			return g.nodes[g.ch.Intn(len(g.nodes), "top.node")]
		}
		return g.newNode(0)
	}
}

// ManyClasses returns a value that mentions k distinct classes (so that later classes of the stream
// get indices >= k).
func (g *Gen) ManyClasses(k int) []interface{} {
	var out []interface{}
	for i := 0; i < k && i < len(kTypes); i++ {
		p := reflect.New(kTypes[i])
		g.fill(p.Elem(), 0)
		out = append(out, p.Interface())
	}
	return out
}

var javaListNames = []string{"java.util.ArrayList", "java.util.LinkedList", "java.util.HashSet", "java.util.TreeSet", "java.util.Set",
	"java.util.List", "java.util.Collection", "java.util.Vector"}

// VariantMaps returns fresh copies of the zoo maps in which some list types carry Java collection class
// names and some classes carry package-qualified names, consistently in both maps (a complete,
// hand-written registration as the README describes, instead of the extracted default names).
func VariantMaps(ch *Choices) (map[string]reflect.Type, map[string]string, string) {
	tm := make(map[string]reflect.Type, len(ZooTypeMap))
	for k, v := range ZooTypeMap {
		tm[k] = v
	}
	nm := make(map[string]string, len(ZooNameMap))
	for k, v := range ZooNameMap {
		nm[k] = v
	}
	salt := ch.Salt("maps.salt")
	var keys []string
	for k := range nm {
		keys = append(keys, k)
	}
	sort.Strings(keys)
	next := int(salt % uint64(len(javaListNames)))
	usedNames := 0
	renamed := 0
	for _, k := range keys {
		if mix64(hashString(k)^salt)%2 != 0 {
			continue
		}
		t, ok := tm[k]
		if !ok || t == nil {
			continue
		}
		switch {
		case strings.HasPrefix(k, "[]") && t.Kind() == reflect.Slice && usedNames < len(javaListNames) && !strings.Contains(k, "interface"):
			name := javaListNames[(next+usedNames)%len(javaListNames)]
			usedNames++
			nm[k] = name
			tm[name] = t
			renamed++
		case t.Kind() == reflect.Struct && t.Name() == k && t != timeType && nm[k] == k:
			name := "com.example.zoo." + k
			nm[k] = name
			tm[name] = t
			renamed++
		}
	}
	return tm, nm, fmt.Sprintf("%d types registered under Java-style names", renamed)
}
