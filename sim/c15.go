package sim

// C15 — a failing destination writer always surfaces as an encode error.
//
// One run = one seeded stream of values and one entry point; the fault space (every index k of
// the k-th Write made while encoding x every fault kind) is enumerated exhaustively for it.

import (
	"fmt"
	"io"
	"reflect"

	hessian "github.com/vogo/gohessian"
)

func init() { register(&Engine{Name: "C15", Run: runC15}) }

const (
	c15EncWriteTo = iota
	c15EncWriteObject
	c15SerWriteTo
	c15SerWrite
	nC15Entry
)

var c15EntryNames = []string{"Encoder.WriteTo", "Encoder.WriteObject(stream)", "Serializer.WriteTo", "Serializer.WriteTo+Write(stream)"}

// c15Domain is wider than the round-trip core domain: the oracle only needs values the encoder
// accepts without a fault.
func c15Domain() Domain {
	return Domain{Untyped: true, LooseDyn: true, EmptyStringElems: true, NilPtrElems: true, ZeroTimeElems: true, BigStrings: true, BigBinaries: true,
		FarDates: true, AllDoubles: true, OddMaps: true, MaxListLen: 12, MaxMapLen: 5}
}

// c15Encode runs the stream through the entry point against w and returns the error of each call.
func c15Encode(entry int, vals []interface{}, fw *FaultyWriter, rich bool) (errs []error, firedBefore []int, sinkAt []int) {
	var w interface {
		Write([]byte) (int, error)
	} = fw
	if rich {
		w = &RichFaultyWriter{FaultyWriter: fw}
	}
	return c15EncodeTo(entry, vals, fw, w)
}

// sinkAt[i] is the number of bytes the destination had taken before call i (sinkAt[n]: at the end).
func c15EncodeTo(entry int, vals []interface{}, fw *FaultyWriter, w io.Writer) (errs []error, firedBefore []int, sinkAt []int) {
	errs = make([]error, len(vals))
	firedBefore = make([]int, len(vals)+1)
	sinkAt = make([]int, len(vals)+1)
	switch entry {
	case c15EncWriteTo:
		e := hessian.NewEncoder(nil, ZooNameMap)
		for i, v := range vals {
			firedBefore[i] = fw.Fired
			sinkAt[i] = fw.Sink.Len()
			errs[i] = e.WriteTo(w, v)
		}
	case c15EncWriteObject:
		e := hessian.NewEncoder(w, ZooNameMap)
		for i, v := range vals {
			firedBefore[i] = fw.Fired
			sinkAt[i] = fw.Sink.Len()
			errs[i] = e.WriteObject(v)
		}
	case c15SerWriteTo:
		s := hessian.NewSerializer(ZooTypeMap, ZooNameMap)
		for i, v := range vals {
			firedBefore[i] = fw.Fired
			sinkAt[i] = fw.Sink.Len()
			errs[i] = s.WriteTo(w, v)
		}
	case c15SerWrite:
		s := hessian.NewSerializer(ZooTypeMap, ZooNameMap)
		for i, v := range vals {
			firedBefore[i] = fw.Fired
			sinkAt[i] = fw.Sink.Len()
			if i == 0 {
				errs[i] = s.WriteTo(w, v)
			} else {
				errs[i] = s.Write(v)
			}
		}
	}
	firedBefore[len(vals)] = fw.Fired
	sinkAt[len(vals)] = fw.Sink.Len()
	return
}

func c15Probe(o *Outcome, site int32, last bool, later bool) {
	fn := siteFunc(site)
	switch fn {
	case "Encoder.writeClsDef":
		o.Probes["fault on a class-definition write"]++
	case "Encoder.writeObject":
		o.Probes["fault on an instance tag / object write"]++
	case "Encoder.writeList":
		o.Probes["fault on a list header / element"]++
	case "Encoder.writeMap":
		o.Probes["fault on a map header / terminator"]++
	case "Encoder.writeRef":
		o.Probes["fault on a back-reference"]++
	case "Encoder.WriteData":
		o.Probes["fault on a null / scalar write"]++
	}
	if last {
		o.Probes["fault on the last write of the stream"]++
	}
	if later {
		o.Probes["fault on a write of a later value of a stream"]++
	}
}

func runC15(ch *Choices, cfg *RunCfg) (o *Outcome) {
	o = newOutcome()
	setMapOrder(ch.Salt("mapsalt"))
	entry := ch.Intn(nC15Entry, "entry")
	n := 1
	if entry == c15EncWriteObject || entry == c15SerWrite {
		n = ch.Range(1, 4, "nvals")
	} else if ch.Intn(4, "reuse") == 1 {
		n = 2 // a reused instance: second one-shot call
	}
	g := NewGen(ch, c15Domain())
	vals := make([]interface{}, n)
	for i := range vals {
		vals[i] = g.Value()
	}
	defer func() {
		if r := recover(); r != nil {
			// a panic in the encoder is not what this property is about; count it, do not report
			o.Skipped = true
			o.Probes["encoder panicked (run skipped)"]++
		}
	}()

	// fault-free control: count the writes, make sure the value is in the encoder's domain
	resetClock(0)
	ctl := &FaultyWriter{site: callerSite}
	rich := ch.Intn(3, "writer.rich") == 1
	if rich {
		o.Probes["destination also offers WriteByte / WriteString / Flush"]++
	}
	errs, _, ctlAt := c15Encode(entry, vals, ctl, rich)
	for _, e := range errs {
		if e != nil {
			o.Skipped = true
			o.Probes["value outside the encoder's domain (run skipped)"]++
			return o
		}
	}
	W := ctl.Calls
	ctlBytes := append([]byte(nil), ctl.Sink.Bytes()...)
	fp := NewFingerprint()
	fp.Add(uint64(entry), uint64(W), hashBytes(ctlBytes))
	o.Fingerprint = fp.Sum()
	o.Steps = clock.steps
	sample := map[string]interface{}{"entry": c15EntryNames[entry], "values": n, "writes": W, "bytes": len(ctlBytes), "first_value": describe(vals[0])}
	o.Sample = sample

	pinK, pinKind := 0, WFault(0)
	if cfg.Pin != "" {
		fmt.Sscanf(cfg.Pin, "%d/%d", &pinK, &pinKind)
	}
	for k := 1; k <= W; k++ {
		for kind := WErrOnce; kind < nWFault; kind++ {
			if pinK != 0 && (k != pinK || kind != pinKind) {
				continue
			}
			resetClock(0)
			w := &FaultyWriter{FaultAt: k, Kind: kind}
			errs, fb, at := c15Encode(entry, vals, w, rich)
			o.Steps += clock.steps
			o.Evals++
			if w.Fired == 0 {
				continue
			}
			o.Nontrivial = true
			o.Faults[kind.String()] += w.Fired
			site := int32(-1)
			if k-1 < len(ctl.Sites) {
				site = ctl.Sites[k-1]
			}
			later := false
			for i := range vals {
				firedInCall := fb[i+1] - fb[i]
				if firedInCall > 0 && i > 0 {
					later = true
				}
				if firedInCall > 0 && errs[i] == nil {
					pin := fmt.Sprintf("%d/%d", k, int(kind))
					o.fail("c15/unreported-fault", siteFunc(site),
						"%s: call #%d (value %s) returned nil although the writer faulted (%s) at Write #%d of %d, made at %s; %d of %d control bytes reached the sink",
						c15EntryNames[entry], i+1, clip(describe(vals[i]), 80), kind, k, W, siteString(site), w.Sink.Len(), len(ctlBytes))
					if o.Extra == nil {
						o.Extra = map[string]string{"pin": pin}
					}
				}
			}
			// second clause: success is never reported for a value whose bytes did not all reach the writer.
			// A call during which nothing faulted and that returns nil must have delivered the value's
			// bytes - the control bytes of that call. One-shot entry points start every call from a clean
			// state, so this holds for every such call, also after a failed one; on a stream it is only
			// demanded while nothing has faulted yet (afterwards the stream is broken anyway).
			oneShot := entry == c15EncWriteTo || entry == c15SerWriteTo
			for i := range vals {
				if errs[i] != nil || fb[i+1]-fb[i] > 0 || (!oneShot && fb[i] > 0) {
					continue
				}
				o.Probes["successful call next to a faulted one compared with its control bytes"]++
				got := w.Sink.Bytes()[at[i]:at[i+1]]
				want := ctlBytes[ctlAt[i]:ctlAt[i+1]]
				if string(got) != string(want) {
					what := "after"
					if fb[i] == 0 {
						what = "before"
					}
					o.fail("c15/success-without-bytes", c15EntryNames[entry],
						"%s: call #%d (value %s) returned nil and the writer did not fault during it, but only %d of its %d bytes reached the writer (%s the call in which the writer faulted (%s) at Write #%d of %d): success reported for a value whose bytes did not all reach the writer",
						c15EntryNames[entry], i+1, clip(describe(vals[i]), 80), len(got), len(want), what, kind, k, W)
					if o.Extra == nil {
						o.Extra = map[string]string{"pin": fmt.Sprintf("%d/%d", k, int(kind))}
					}
				}
			}
			c15Probe(o, site, k == W, later)
			if o.Class != "" {
				return o
			}
		}
	}
	_ = reflect.TypeOf
	return o
}
