package sim

// getg returns the address of the running goroutine's g (see getg_amd64.s).
func getg() uintptr
