package sim

// C11 — a reused serializer / encoder / decoder behaves exactly like a fresh one; calls have no
// side effects on the caller's value, bytes or (complete) maps.
//
// System: one instance driven through a seeded HISTORY of calls, some of them aborted half-way
// by an injected writer fault (class and reference tables partly filled) or by a damaged / cut
// input stream; then a probe call on the used instance and on a fresh one. Reference model:
// "a freshly constructed instance with the same maps".

import (
	"bufio"
	"bytes"
	"fmt"
	"io"
	"os"
	"reflect"
	"sort"

	hessian "github.com/vogo/gohessian"
)

func init() { register(&Engine{Name: "C11", Run: runC11}) }

func c11Domain() Domain {
	return Domain{Untyped: true, LooseDyn: true, EmptyStringElems: true, NilPtrElems: true, ZeroTimeElems: true, BigStrings: true, BigBinaries: true,
		FarDates: true, AllDoubles: true, OddMaps: true, MaxListLen: 8, MaxMapLen: 4}
}

const (
	hEncode = iota
	hEncodeBad
	hWriteToFault
	hDecode
	hDecodeDamaged
	hStreamWrite
	hStreamRead
	hReset
	hReadFromSameReader
	hWriteToSameWriter
	hReconfigure
	nHistOp
)

var c11OpNames = []string{"encode", "encode-unrepresentable", "WriteTo(aborted by writer fault)", "decode", "decode(damaged/cut stream)", "stream write", "stream read", "Reset", "ReadFrom(the caller's one reader, next message)", "WriteTo(the caller's one writer, next message)", "caller changes a registration"}

const (
	pEncode = iota
	pWriteTo
	pDecode
	pReadFrom
	nProbe
)

var c11ProbeNames = []string{"Encode/ToBytes", "WriteTo", "Decode/ToObject", "ReadFrom"}

type c11Inst struct {
	sameW *bytes.Buffer
	ser   hessian.Serializer
	enc   *hessian.Encoder
	dec   *hessian.Decoder
	tm    map[string]reflect.Type
	nm    map[string]string
}

func c11New(pair bool, tm map[string]reflect.Type, nm map[string]string) *c11Inst {
	if pair {
		return &c11Inst{enc: hessian.NewEncoder(nil, nm), dec: hessian.NewDecoder(nil, tm), tm: tm, nm: nm}
	}
	return &c11Inst{ser: hessian.NewSerializer(tm, nm), tm: tm, nm: nm}
}

func (in *c11Inst) encode(v interface{}) ([]byte, error) {
	if in.ser != nil {
		return in.ser.ToBytes(v)
	}
	return in.enc.Encode(v)
}

func (in *c11Inst) writeTo(w interface{ Write([]byte) (int, error) }, v interface{}) error {
	if in.ser != nil {
		return in.ser.WriteTo(w, v)
	}
	return in.enc.WriteTo(w, v)
}

func (in *c11Inst) write(v interface{}) error {
	if in.ser != nil {
		return in.ser.Write(v)
	}
	return in.enc.WriteObject(v)
}

func (in *c11Inst) decode(b []byte) (interface{}, error) {
	if in.ser != nil {
		return in.ser.ToObject(b)
	}
	return in.dec.Decode(b)
}

func (in *c11Inst) readFrom(r hessian.ByteRuneReader) (interface{}, error) {
	if in.ser != nil {
		return in.ser.ReadFrom(r)
	}
	return in.dec.ReadFrom(r)
}

func (in *c11Inst) read() (interface{}, error) {
	if in.ser != nil {
		return in.ser.Read()
	}
	return in.dec.ReadObject()
}

// guarded runs f, converting a panic into a rendered result (the harness keeps using the instance).
func guarded(f func()) (panicked string) {
	defer func() {
		if r := recover(); r != nil {
			panicked = maskErr(fmt.Errorf("panic: %v", r))
		}
	}()
	f()
	return ""
}

func copyMaps() (map[string]reflect.Type, map[string]string) {
	tm := make(map[string]reflect.Type, len(ZooTypeMap))
	for k, v := range ZooTypeMap {
		tm[k] = v
	}
	nm := make(map[string]string, len(ZooNameMap))
	for k, v := range ZooNameMap {
		nm[k] = v
	}
	return tm, nm
}

type chanHolderMap map[string]interface{}

// Struct types with a field the encoder can never write, after fields it can: an encode of one fails half
// way through the struct.
type BadTail struct {
	A    int32
	S    string
	Done chan int
}
type BadMid struct {
	A int32
	F func()
	Z string
}
type BadNested struct {
	N  int32
	In BadTail
	T  string
}

// Two Go types that a caller maps to ONE wire class name (two versions of a class side by side; a legal
// registration): the decoder's type map can name only one of them.
type TwinA struct {
	Login  string
	Email  string
	Active bool
}
type TwinB struct {
	Name string
	Age  int32
}

const twinWire = "com.example.verif.Twin"

const nC11Bad = 8

func c11BadValue(ch *Choices) interface{} {
	return c11BadValueKind(ch, ch.Intn(nC11Bad, "bad.kind"))
}

func c11BadValueKind(ch *Choices, kind int) interface{} {
	switch kind {
	case 0:
		return make(chan int)
	case 1:
		return map[string]interface{}{"k": make(chan int)}
	case 2:
		return func() {}
	case 3:
		return map[string]interface{}{"a": int32(1), "z": complex(1, 2)}
	case 4:
		return &BadTail{A: int32(ch.Intn(100, "bad.a")), S: "s"}
	case 5:
		return BadMid{A: int32(ch.Intn(100, "bad.a")), Z: "z"}
	case 6:
		return &BadNested{N: int32(ch.Intn(100, "bad.a")), In: BadTail{A: 2, S: "in"}, T: "t"}
	default:
		return []interface{}{int32(1), &BadTail{A: 3, S: "el"}, "after"}
	}
}

type c11Earlier struct {
	what  string
	bytes []byte // the slice the library returned (may alias library memory)
	snapB []byte
	val   interface{}
	snapV string
}

// pristineMaps returns fresh copies of the maps as the caller supplied them at the start of the run.
func (st *c11State) pristineMaps() (map[string]reflect.Type, map[string]string) {
	tm := make(map[string]reflect.Type, len(st.tm0))
	for k, v := range st.tm0 {
		tm[k] = v
	}
	nm := make(map[string]string, len(st.nm0))
	for k, v := range st.nm0 {
		nm[k] = v
	}
	if st.nmNil {
		return tm, nil // the caller passed no name map at all
	}
	return tm, nm
}

// fresh constructs the reference instance of a probe: over copies of the maps as the caller supplied them,
// followed by the configuration calls the caller has made on the used instance.
func (st *c11State) fresh() *c11Inst {
	ftm, fnm := st.pristineMaps()
	in := c11New(st.pair, ftm, fnm)
	for _, act := range st.reconf {
		guarded(func() { act(in) })
	}
	return in
}

type c11State struct {
	tm0        map[string]reflect.Type
	nm0        map[string]string
	persistRd  *SimReader    // a caller-owned reader OBJECT that is handed to ReadFrom again and again
	persistW   *bytes.Buffer // a caller-owned writer OBJECT that is handed to WriteTo again and again
	o          *Outcome
	ch         *Choices
	g          *Gen
	in         *c11Inst
	pair       bool
	tmDigest   string
	reconf     []func(in *c11Inst) // configuration calls the caller made on the instance so far
	incomplete bool                // the caller has removed an entry: the maps are no longer complete
	lastVal    interface{}         // the value drawn last
	lastClass  string              // wire name of the class of the struct value drawn last
	badKind    int                 // kind of the unrepresentable value the history encoded last (-1: none)
	nmNil      bool                // the caller constructed the instance without a name map
	twins      bool                // TwinA and TwinB are registered under one wire class name
	earlier    []c11Earlier
	opLog      []string
	aborted    int
}

// checkEarlier re-compares everything earlier calls returned with their snapshots.
func (st *c11State) checkEarlier(after string) {
	for _, e := range st.earlier {
		if e.bytes != nil && !bytes.Equal(e.bytes, e.snapB) {
			st.o.fail("c11/earlier-result-clobbered", "bytes", "the bytes returned by an earlier %s changed after a later %s (history: %v)", e.what, after, st.opLog)
			return
		}
		if e.val != nil {
			if c, _ := Canon(e.val, CanonOpts{}); c != e.snapV {
				st.o.fail("c11/earlier-result-clobbered", "value", "the value returned by an earlier %s changed after a later %s: %s (history: %v)", e.what, after, firstDiff(e.snapV, c), st.opLog)
				return
			}
		}
	}
}

// around runs one call with before/after snapshots of the caller-owned inputs.
func (st *c11State) around(name string, val interface{}, in []byte, f func()) {
	var before string
	if val != nil {
		before, _ = Canon(val, CanonOpts{})
	}
	inCopy := append([]byte(nil), in...)
	guarded(f)
	if val != nil {
		if after, _ := Canon(val, CanonOpts{}); after != before {
			st.o.fail("c11/input-mutated", "value", "%s modified the value being encoded: %s", name, firstDiff(before, after))
		}
	}
	if in != nil && !bytes.Equal(in, inCopy) {
		st.o.fail("c11/input-mutated", "bytes", "%s modified the bytes being decoded", name)
	}
	// (the statement protects COMPLETE maps: once the caller has taken an entry away, a library that
	// fills the gap in is within its rights, and the digest is no longer compared)
	if d := mapsDigest(st.in.tm, st.in.nm); d != st.tmDigest && !st.incomplete {
		st.o.fail("c11/input-mutated", "maps", "%s modified the caller's complete type/name map: %s", name, firstDiff(st.tmDigest, d))
	}
	st.checkEarlier(name)
}

func (st *c11State) keepBytes(what string, b []byte) {
	if len(b) > 0 && len(st.earlier) < 40 {
		st.earlier = append(st.earlier, c11Earlier{what: what, bytes: b, snapB: append([]byte(nil), b...)})
	}
}

func (st *c11State) keepVal(what string, v interface{}) {
	if v != nil && len(st.earlier) < 40 {
		c, _ := Canon(v, CanonOpts{})
		st.earlier = append(st.earlier, c11Earlier{what: what, val: v, snapV: c})
	}
}

// validBytes encodes v with a throw-away encoder (sender side of a decode op).
func c11ValidBytes(v interface{}) []byte {
	var b []byte
	guarded(func() {
		x, err := hessian.ToBytes(v, ZooNameMap)
		if err == nil {
			b = x
		}
	})
	if b == nil {
		b = []byte{'N'}
	}
	return b
}

// val draws the next value of a history or probe: mostly one zoo value, sometimes one wide message that
// mentions 9..24 distinct classes (class tables grow past the sizes small messages reach).
func (st *c11State) val() interface{} {
	v := st.val1()
	st.lastVal = v
	if t := reflect.TypeOf(v); t != nil {
		for t.Kind() == reflect.Ptr {
			t = t.Elem()
		}
		if w, ok := ZooNameMap[t.Name()]; ok && t.Kind() == reflect.Struct {
			st.lastClass = w
		}
	}
	return v
}

func (st *c11State) val1() interface{} {
	if st.lastVal != nil && st.ch.Intn(6, "val.again") == 1 {
		// the same message once more (a caller retrying after it changed something)
		st.o.Probes["the previous value / message used again"]++
		return st.lastVal
	}
	if st.twins && st.ch.Intn(6, "val.twin") == 1 {
		st.o.Probes["value of one of two Go types that share a wire class name"]++
		n := int32(st.ch.Intn(50, "twin.n"))
		switch st.ch.Intn(3, "twin.which") {
		case 0:
			return &TwinA{Login: "l", Email: "e", Active: n%2 == 0}
		case 1:
			return &TwinB{Name: "n", Age: n}
		default:
			return []interface{}{&TwinB{Name: "x", Age: n}, &TwinA{Login: "y"}}
		}
	}
	if st.ch.Intn(10, "val.many") == 1 {
		st.o.Probes["message with 9..24 distinct classes in a history or probe"]++
		return st.g.ManyClasses(st.ch.Range(9, 24, "val.many.k"))
	}
	return st.g.Value()
}

func (st *c11State) histOp(kind int) {
	ch, in := st.ch, st.in
	st.opLog = append(st.opLog, c11OpNames[kind])
	switch kind {
	case hEncode:
		v := st.val()
		st.around("encode", v, nil, func() {
			b, err := in.encode(v)
			if err == nil {
				st.keepBytes("encode", b)
			}
		})
	case hEncodeBad:
		st.badKind = ch.Intn(nC11Bad, "bad.kind")
		v := c11BadValueKind(ch, st.badKind)
		if st.badKind >= 4 {
			st.incomplete = true // the name map does not know these struct types: it is not complete for them
		}
		st.around("encode(unrepresentable)", nil, nil, func() { in.encode(v) })
		st.o.Faults["encode of an unrepresentable value"]++
	case hWriteToFault:
		v := st.val()
		k := 1 + ch.Intn(40, "abort.k")
		kind := WFault(1 + ch.Intn(int(nWFault)-1, "abort.kind"))
		w := &FaultyWriter{FaultAt: k, Kind: kind, site: callerSite}
		st.around("WriteTo(faulty writer)", v, nil, func() { in.writeTo(w, v) })
		if w.Fired > 0 && len(w.Sites) > 0 {
			st.aborted++
			st.o.Faults["WriteTo aborted by a writer fault ("+kind.String()+")"]++
			switch siteFunc(w.Sites[minInt(k, len(w.Sites))-1]) {
			case "Encoder.writeObject":
				st.o.Probes["abort landed after a class definition was registered (instance write)"]++
			case "Encoder.writeClsDef":
				st.o.Probes["abort landed inside a class definition"]++
			case "Encoder.writeRef", "Encoder.writeList", "Encoder.writeMap":
				st.o.Probes["abort landed after a ref was registered"]++
			}
		}
	case hDecode:
		b := c11ValidBytes(st.val())
		if ch.Intn(3, "dec.foreign") == 1 {
			var feats map[string]int
			b, _, feats = foreignStream(ch, false)
			for k, n := range feats {
				st.o.Probes["history decoded a stream with: "+k] += n
			}
		}
		st.around("decode", nil, b, func() {
			v, err := in.decode(b)
			if err == nil {
				st.keepVal("decode", v)
			}
		})
	case hDecodeDamaged:
		b := c11ValidBytes(st.val())
		var plan []TFault
		switch ch.Intn(3, "dmg.kind") {
		case 0:
			plan = []TFault{{Kind: TCut, Off: ch.Intn(len(b)+1, "dmg.off")}}
		case 1:
			plan = []TFault{{Kind: TReset, Off: ch.Intn(len(b)+1, "dmg.off")}}
		default:
			plan = c14DrawPlan(ch, len(b), nil)
		}
		data, tail, fired := ApplyPlan(b, plan)
		for i, f := range fired {
			if f {
				st.o.Faults["decode of a damaged stream ("+plan[i].Kind.String()+")"]++
			}
		}
		rd := NewSimReader(data, tail)
		st.aborted++
		var pan string
		st.around("ReadFrom(damaged stream)", nil, data, func() {
			pan = guarded(func() { in.readFrom(rd) })
		})
		if pan != "" {
			st.o.Probes["decode aborted by a panic (recovered by the harness, instance kept)"]++
		}
	case hStreamWrite:
		n := ch.Range(1, 3, "stream.n")
		var buf bytes.Buffer
		for i := 0; i < n; i++ {
			v := st.val()
			i := i
			st.around("stream write", v, nil, func() {
				if i == 0 {
					in.writeTo(&buf, v)
				} else {
					in.write(v)
				}
			})
		}
	case hStreamRead:
		n := ch.Range(1, 3, "stream.n")
		var buf bytes.Buffer
		guarded(func() {
			e := hessian.NewEncoder(&buf, ZooNameMap)
			for i := 0; i < n; i++ {
				e.WriteObject(st.val())
			}
		})
		data := buf.Bytes()
		// a stream consumer does not know n: it reads until a read fails. Sometimes the history reads
		// once past the end (the ordinary end of stream), sometimes the peer dies inside a later value.
		reads := n
		switch ch.Intn(4, "stream.tail") {
		case 1:
			reads = n + 1
			st.o.Probes["continued read failed at the ordinary end of the stream"]++
		case 2:
			if len(data) > 1 {
				data = data[:1+ch.Intn(len(data)-1, "stream.cut")]
				reads = n + 1
				st.o.Faults["stream cut before a continued read"]++
			}
		}
		rd := bufio.NewReader(bytes.NewReader(data))
		for i, failed := 0, false; i < reads && !failed; i++ {
			i := i
			failed = true // a panic counts as a failed read too
			st.around("stream read", nil, data, func() {
				var v interface{}
				var err error
				if i == 0 {
					v, err = in.readFrom(rd)
				} else {
					v, err = in.read()
				}
				if err == nil {
					st.keepVal("stream read", v)
					failed = false
				}
			})
		}
	case hReadFromSameReader:
		// the pool benchmark's pattern: one buffer + one bufio.Reader owned by the caller; every message
		// is appended to the buffer and read with ReadFrom(the same reader object)
		if st.persistRd == nil {
			st.persistRd = NewSimReader(nil, nil)
		}
		b := c11ValidBytes(st.val())
		if ch.Intn(4, "same.dmg") == 1 {
			b, _, _ = ApplyPlan(b, []TFault{{Kind: TCut, Off: ch.Intn(len(b)+1, "same.cut")}})
		}
		// the reader object stays the same; it now holds exactly the next message (no state of its own
		// survives: what a failed read left unread is dropped, as a caller would)
		*st.persistRd = SimReader{Data: b, Tail: io.EOF}
		st.around("ReadFrom(same reader)", nil, nil, func() {
			v, err := in.readFrom(st.persistRd)
			if err == nil {
				st.keepVal("ReadFrom(same reader)", v)
			}
		})
		st.o.Probes["ReadFrom called again with the same reader object"]++
	case hWriteToSameWriter:
		if st.persistW == nil {
			st.persistW = &bytes.Buffer{}
		}
		v := st.val()
		st.persistW.Reset()
		st.around("WriteTo(same writer)", v, nil, func() { in.writeTo(st.persistW, v) })
		st.o.Probes["WriteTo called again with the same writer object"]++
	case hReconfigure:
		// the maps are the caller's: between two calls it may register a class, take one away or map a name
		// to another type (through the instance's Register* methods or by writing the map it handed in).
		// From then on "a fresh instance" is one constructed over the maps as they are now.
		names := sortedTypeKeys()
		name := names[ch.Intn(len(names), "reconf.name")]
		if st.lastClass != "" && ch.Intn(3, "reconf.last") != 0 {
			name = st.lastClass // usually the class the instance has just dealt with
		}
		var typ reflect.Type // nil = take the entry away
		switch ch.Intn(3, "reconf.what") {
		case 1:
			typ = ZooTypeMap[name]
		case 2:
			typ = ZooTypeMap[names[ch.Intn(len(names), "reconf.other")]]
		}
		how := ch.Intn(4, "reconf.how")
		var act func(in *c11Inst)
		if ch.Intn(4, "reconf.side") == 3 {
			// the name map: a Go type gets another wire name, loses it or gets it back
			var gname string
			for _, g := range sortedNameKeys() {
				if ZooNameMap[g] == name {
					gname = g
				}
			}
			if gname == "" {
				return
			}
			// (the name map stays complete: an entry is renamed or restored, never removed)
			wire := name
			if typ != ZooTypeMap[name] {
				wire = "alt." + name
			}
			act = func(in *c11Inst) {
				enc := in.enc
				switch {
				case wire == "":
					delete(in.nm, gname)
				case enc != nil && how == 1:
					enc.RegisterNameType(gname, wire)
				case enc != nil && how == 2:
					n2 := map[string]string{}
					for k, v := range in.nm {
						n2[k] = v
					}
					n2[gname] = wire
					enc.RegisterNameMap(n2)
					in.nm = n2
				default:
					in.nm[gname] = wire
				}
			}
		} else {
			act = func(in *c11Inst) {
				dec := in.dec
				switch {
				case typ == nil:
					delete(in.tm, name)
				case dec != nil && how == 1:
					dec.RegisterType(name, typ)
				case dec != nil && how == 2 && typ.Kind() == reflect.Struct:
					dec.RegisterVal(name, reflect.Zero(typ).Interface())
				case dec != nil && how == 3:
					t2 := map[string]reflect.Type{}
					for k, v := range in.tm {
						t2[k] = v
					}
					t2[name] = typ
					dec.RegisterTypeMap(t2)
					in.tm = t2
				default:
					in.tm[name] = typ
				}
			}
		}
		// the reference instance of the probe is constructed over the original maps and then receives the
		// same configuration calls in the same order (so the comparison does not depend on whether an
		// instance shares or copies the maps it was constructed with)
		if typ == nil {
			st.incomplete = true
		}
		st.reconf = append(st.reconf, act)
		guarded(func() { act(in) })
		st.tmDigest = mapsDigest(in.tm, in.nm)
		st.o.Probes["caller changed a registration between two calls"]++
	case hReset:
		if in.enc != nil {
			guarded(func() { in.enc.Reset(&bytes.Buffer{}) })
			guarded(func() { in.dec.Reset(bufio.NewReader(bytes.NewReader(nil))) })
		} else {
			// a serializer has no Reset; a fresh one-shot call is its reset
			guarded(func() { in.encode(int32(1)) })
		}
	}
}

type c11ProbeRes struct {
	bytes []byte
	canon string
	err   string
	pan   string
}

func (r c11ProbeRes) String() string {
	return fmt.Sprintf("bytes=%x value=%s err=%s panic=%q", clipBytes(r.bytes, 64), clip(r.canon, 200), r.err, r.pan)
}

func c11Probe(in *c11Inst, kind int, v interface{}, data []byte) (r c11ProbeRes) {
	r.pan = guarded(func() {
		switch kind {
		case pEncode:
			b, err := in.encode(v)
			r.bytes, r.err = append([]byte(nil), b...), maskErr(err)
		case pWriteTo:
			buf := &bytes.Buffer{}
			if in.sameW != nil {
				buf = in.sameW // the writer object the history already used
				buf.Reset()
			}
			err := in.writeTo(buf, v)
			r.bytes, r.err = append([]byte(nil), buf.Bytes()...), maskErr(err)
		case pDecode:
			x, err := in.decode(data)
			r.canon, _ = Canon(x, CanonOpts{})
			r.err = maskErr(err)
		case pReadFrom:
			x, err := in.readFrom(NewSimReader(data, nil))
			r.canon, _ = Canon(x, CanonOpts{})
			r.err = maskErr(err)
		}
	})
	return r
}

// c11ProbeSameReader reads data with ReadFrom through a given reader object, which is first loaded with
// exactly that data (the object carries no other state).
func c11ProbeSameReader(in *c11Inst, rd *SimReader, data []byte) (r c11ProbeRes) {
	*rd = SimReader{Data: data, Tail: io.EOF}
	r.pan = guarded(func() {
		x, err := in.readFrom(rd)
		r.canon, _ = Canon(x, CanonOpts{})
		r.err = maskErr(err)
	})
	return r
}

func (st *c11State) probe(label string) {
	ch := st.ch
	kind := ch.Intn(nProbe, "probe.kind")
	var v interface{}
	var data []byte
	if kind == pEncode || kind == pWriteTo {
		if st.badKind >= 0 && ch.Intn(3, "probe.samebad") == 1 {
			// the kind of unrepresentable value the history has already tried
			v = c11BadValueKind(ch, st.badKind)
			st.o.Probes["probe encodes the kind of unrepresentable value an earlier call failed on"]++
		} else if ch.Intn(8, "probe.bad") == 1 {
			k := ch.Intn(nC11Bad, "bad.kind")
			v = c11BadValueKind(ch, k)
			if k >= 4 {
				st.incomplete = true // struct types the name map does not know
			}
		} else {
			v = st.val()
		}
	} else {
		data = c11ValidBytes(st.val())
		switch ch.Intn(4, "probe.dmg") {
		case 1:
			plan := c14DrawPlan(ch, len(data), nil)
			data, _, _ = ApplyPlan(data, plan)
		case 2:
			// a stream that is only decodable with state left over from an earlier message: a fresh
			// decoder rejects it, and so must a used one
			data, _, _ = foreignStream(ch, true)
			st.o.Probes["probe stream depends on state of an earlier message"]++
		case 3:
			data, _, _ = foreignStream(ch, false)
		}
	}
	if kind == pReadFrom && st.persistRd != nil {
		// the probe goes through the same reader object the history used
		used := c11ProbeSameReader(st.in, st.persistRd, data)
		fresh := c11ProbeSameReader(st.fresh(), NewSimReader(nil, nil), data)
		st.o.Evals++
		if used.canon != fresh.canon || used.err != fresh.err || used.pan != fresh.pan {
			st.o.fail("c11/probe-differs", "ReadFrom(same reader)", "%s: after the history %v, ReadFrom through the caller's one reader returned {%s} on the used instance but {%s} on a fresh one",
				label, st.opLog, used.String(), fresh.String())
		}
		return
	}
	var used c11ProbeRes
	var vv interface{} = v
	if kind == pDecode || kind == pReadFrom {
		vv = nil
	}
	if _, isChan := v.(chan int); isChan {
		vv = nil
	}
	if _, isFunc := v.(func()); isFunc {
		vv = nil
	}
	st.in.sameW = st.persistW
	st.around("probe "+c11ProbeNames[kind], vv, data, func() { used = c11Probe(st.in, kind, v, data) })
	fresh := c11Probe(st.fresh(), kind, v, data)
	st.o.Evals++
	if !bytes.Equal(used.bytes, fresh.bytes) || used.canon != fresh.canon || used.err != fresh.err || used.pan != fresh.pan {
		st.o.fail("c11/probe-differs", c11ProbeNames[kind], "%s: after the history %v the probe %s returned {%s} on the used instance but {%s} on a fresh one",
			label, st.opLog, c11ProbeNames[kind], used.String(), fresh.String())
	}
}

func runC11(ch *Choices, cfg *RunCfg) (o *Outcome) {
	o = newOutcome()
	resetClock(0)
	setMapOrder(ch.Salt("mapsalt"))
	pair := ch.Intn(2, "inst.pair") == 1
	tm, nm := copyMaps()
	if ch.Intn(4, "maps.javanames") == 1 {
		tm, nm, _ = VariantMaps(ch)
		o.Probes["caller's maps with Java-style list / class names"]++
	}
	switch ch.Pick([]int{70, 0, 15, 15}, "tm.variant") {
	case 2:
		tm, _ = typeMapVariant(ch, 2)
		o.Probes["caller's type map partial"]++
	case 3:
		tm, _ = typeMapVariant(ch, 3)
		o.Probes["caller's type map shuffled / oddly typed"]++
	}
	if ch.Intn(5, "tm.odd") == 1 {
		// a legal but unusual registration: some classes registered through a pointer type
		salt := ch.Salt("tm.oddsalt")
		for _, k := range sortedTypeKeys() {
			if t := tm[k]; t != nil && t.Kind() == reflect.Struct && mix64(hashString(k)^salt)%3 == 0 {
				tm[k] = reflect.PtrTo(t)
			}
		}
		o.Probes["caller's type map with classes registered through pointer types"]++
	}
	st := &c11State{o: o, ch: ch, g: NewGen(ch, c11Domain()), pair: pair, badKind: -1}
	if ch.Intn(6, "twins") == 1 {
		nm["TwinA"], nm["TwinB"] = twinWire, twinWire
		tm[twinWire] = reflect.TypeOf(TwinA{})
		st.twins = true
		o.Probes["caller's maps with two Go types under one wire class name"]++
	}
	switch ch.Pick([]int{80, 12, 8}, "nm.variant") {
	case 1:
		// an incomplete name map: a caller that registered only some of its types (the encoder falls back
		// to the Go type names and may fill the map in: the "maps unchanged" digest does not apply)
		salt := ch.Salt("nm.salt")
		for _, k := range sortedNameKeys() {
			if mix64(hashString(k)^salt)%3 == 0 {
				delete(nm, k)
			}
		}
		st.incomplete = true
		o.Probes["caller's name map incomplete"]++
	case 2:
		nm = nil
		st.nmNil = true
		st.incomplete = true
		o.Probes["caller's name map nil"]++
	}
	st.in = c11New(pair, tm, nm)
	st.tmDigest = mapsDigest(tm, nm)
	st.tm0, st.nm0 = map[string]reflect.Type{}, map[string]string{}
	for k, v := range tm {
		st.tm0[k] = v
	}
	for k, v := range nm {
		st.nm0[k] = v
	}

	mode := ch.Pick([]int{60, 13, 13, 14}, "mode")
	if os.Getenv("VF_C11_FORCE") == "soak4" {
		mode = 3 // development aid
	}
	switch mode {
	case 0:
		// seeded history, then probe
		n := ch.Pick([]int{5, 20, 20, 15, 10, 10, 10, 10}, "hist.len.kind")
		hlen := []int{0, 1, 2, 3, 5, 8, 15, 30}[n]
		for i := 0; i < hlen && o.Class == ""; i++ {
			st.histOp(ch.Pick([]int{20, 8, 22, 15, 15, 8, 8, 4, 12, 8, 10}, "hist.op"))
		}
		if o.Class == "" {
			st.probe("history")
		}
		o.Sample = map[string]interface{}{"mode": "seeded history", "instance": map[bool]string{true: "Encoder+Decoder", false: "Serializer"}[pair], "history": st.opLog, "aborted_calls": st.aborted}
	case 1:
		// enumerated write-side aborts: for every k and kind "WriteTo aborted at Write #k, then probe"
		v := st.val()
		ctl := &FaultyWriter{}
		guarded(func() { hessian.NewEncoder(nil, ZooNameMap).WriteTo(ctl, v) })
		W := ctl.Calls
		if W > 120 {
			W = 120
		}
		pv := st.val() // the probe value is fixed for the whole enumeration
		for k := 1; k <= W && o.Class == ""; k++ {
			for kind := WErrOnce; kind < nWFault && o.Class == ""; kind++ {
				tm, nm := st.pristineMaps()
				in := c11New(pair, tm, nm)
				w := &FaultyWriter{FaultAt: k, Kind: kind}
				guarded(func() { in.writeTo(w, v) })
				if w.Fired > 0 {
					o.Faults["WriteTo aborted by a writer fault ("+kind.String()+")"]++
				}
				used := c11Probe(in, pEncode, pv, nil)
				ftm, fnm := st.pristineMaps()
				fresh := c11Probe(c11New(pair, ftm, fnm), pEncode, pv, nil)
				o.Evals++
				if !bytes.Equal(used.bytes, fresh.bytes) || used.err != fresh.err || used.pan != fresh.pan {
					o.fail("c11/probe-differs", "Encode/ToBytes", "after WriteTo(%s) aborted by %s at Write #%d of %d, Encode(%s) returned {%s} on the used instance but {%s} on a fresh one",
						clip(describe(v), 80), kind, k, ctl.Calls, clip(describe(pv), 80), used.String(), fresh.String())
				}
				if d := mapsDigest(tm, nm); d != st.tmDigest && !st.incomplete {
					o.fail("c11/input-mutated", "maps", "an aborted WriteTo modified the caller's complete maps: %s", firstDiff(st.tmDigest, d))
				}
			}
		}
		o.Probes["write-side abort index enumerated exhaustively"]++
		o.Sample = map[string]interface{}{"mode": "enumerated write aborts", "value": describe(v), "writes": ctl.Calls}
	case 3:
		// soak: ONE failing call repeated many times (state that leaks a little per failure only shows
		// after many), then probes incl. a deeply nested value
		R := ch.Range(20, 400, "soak.n")
		kind := ch.Intn(5, "soak.kind")
		if os.Getenv("VF_C11_FORCE") == "soak4" {
			kind = 4
		}
		var data []byte
		var val interface{}
		var what string
		switch kind {
		case 0:
			data = deepBadStream(ch.Range(1, 120, "soak.depth"))
			what = "decode of nested lists ending in an undefined class index"
		case 1:
			data = c11ValidBytes(st.val())
			data, _, _ = ApplyPlan(data, c14DrawPlan(ch, len(data), nil))
			what = "decode of a damaged stream"
		case 4:
			// a typed list / map whose type name the type map does not know: the name is read (and numbered as
			// a type reference target), then the decode fails before any container is registered
			data = []byte{0x72, 0x0b}
			data = append(data, "[nosuchtype"...)
			data = append(data, 0x90, 0x91)
			if ch.Intn(2, "soak.cutname") == 1 {
				data = data[:2+ch.Intn(12, "soak.cutat")]
			}
			what = "decode of a typed list of an unknown type (possibly cut inside / behind the type name)"
		case 2:
			val = st.val()
			what = "WriteTo aborted by a writer fault"
		default:
			val = map[string]interface{}{"a": int32(1), "k": &K19{A: 1, P: &K18{A: 2, S: "x"}}, "z": make(chan int)}
			what = "encode of a value whose nested element is unrepresentable"
		}
		k := 1 + ch.Intn(30, "soak.k")
		for i := 0; i < R; i++ {
			switch kind {
			case 0, 1, 4:
				guarded(func() { st.in.decode(data) })
			case 2:
				guarded(func() { st.in.writeTo(&FaultyWriter{FaultAt: k, Kind: WErrOnce}, val) })
			default:
				guarded(func() { st.in.encode(val) })
			}
		}
		st.opLog = append(st.opLog, fmt.Sprintf("%d x %s", R, what))
		o.Faults["soak: failing call repeated"] += R
		if o.Class == "" {
			// probe 0 (first, before anything that could heal the instance): a stream that is only decodable with state left over from an earlier message
			pb, _, _ := foreignStream(ch, true)
			ftm2, fnm2 := st.pristineMaps()
			ud := c11Probe(st.in, pDecode, nil, pb)
			fd := c11Probe(c11New(pair, ftm2, fnm2), pDecode, nil, pb)
			o.Evals++
			if ud.canon != fd.canon || ud.err != fd.err || ud.pan != fd.pan {
				o.fail("c11/probe-differs", "Decode/ToObject", "after %v, Decode of a stream that depends on state of an earlier message returned {%s} on the used instance but {%s} on a fresh one", st.opLog, ud.String(), fd.String())
			}
		}
		// probe 1: a deep chain, encoded and decoded on the used and on a fresh instance
		n := ch.Range(50, 300, "soak.chain")
		var head *Node
		for i := n; i >= 1; i-- {
			head = &Node{Id: int32(i), Name: "c", Next: head}
		}
		ftm, fnm := st.pristineMaps()
		fresh := c11New(pair, ftm, fnm)
		ue := c11Probe(st.in, pEncode, head, nil)
		fe := c11Probe(fresh, pEncode, head, nil)
		o.Evals++
		if !bytes.Equal(ue.bytes, fe.bytes) || ue.err != fe.err || ue.pan != fe.pan {
			o.fail("c11/probe-differs", "Encode/ToBytes", "after %v, Encode of a %d-node chain returned {%s} on the used instance but {%s} on a fresh one", st.opLog, n, ue.String(), fe.String())
		} else if fe.err == "<nil>" {
			ud := c11Probe(st.in, pDecode, nil, fe.bytes)
			fd := c11Probe(fresh, pDecode, nil, fe.bytes)
			o.Evals++
			if ud.canon != fd.canon || ud.err != fd.err || ud.pan != fd.pan {
				o.fail("c11/probe-differs", "Decode/ToObject", "after %v, Decode of a %d-node chain returned {%s} on the used instance but {%s} on a fresh one", st.opLog, n, ud.String(), fd.String())
			}
		}
		if o.Class == "" {
			st.probe("soak")
		}
		o.Probes["soak mode: one failing call repeated 20..400 times, then deep and ordinary probes"]++
		o.Sample = map[string]interface{}{"mode": "soak", "repeated": what, "times": R, "chain_nodes": n}
	default:
		// enumerated read-side aborts: every cut offset, then a decode probe
		b := c11ValidBytes(st.val())
		if len(b) > 400 {
			b = b[:400]
		}
		pb := c11ValidBytes(st.val())
		if ch.Intn(2, "enum.dangling") == 1 {
			if ch.Intn(2, "enum.foreign") == 1 {
				b, _, _ = foreignStream(ch, false)
			}
			pb, _, _ = foreignStream(ch, true)
		}
		for k := 0; k <= len(b) && o.Class == ""; k++ {
			tm, nm := st.pristineMaps()
			in := c11New(pair, tm, nm)
			tail := error(nil)
			if k%2 == 1 {
				tail = errReset
			}
			guarded(func() { in.readFrom(NewSimReader(b[:k], tail)) })
			o.Faults["decode of a cut stream"]++
			used := c11Probe(in, pDecode, nil, pb)
			ftm, fnm := st.pristineMaps()
			fresh := c11Probe(c11New(pair, ftm, fnm), pDecode, nil, pb)
			if d := mapsDigest(tm, nm); d != st.tmDigest && !st.incomplete {
				o.fail("c11/input-mutated", "maps", "a decode of a cut stream or the following probe modified the caller's complete maps: %s", firstDiff(st.tmDigest, d))
			}
			o.Evals++
			if used.canon != fresh.canon || used.err != fresh.err || used.pan != fresh.pan {
				o.fail("c11/probe-differs", "Decode/ToObject", "after ReadFrom of a stream cut at byte %d of %d, Decode returned {%s} on the used instance but {%s} on a fresh one", k, len(b), used.String(), fresh.String())
			}
		}
		o.Probes["read-side cut offset enumerated exhaustively"]++
		o.Sample = map[string]interface{}{"mode": "enumerated read cuts", "stream_bytes": len(b)}
	}
	fp := NewFingerprint()
	for _, s := range st.opLog {
		fp.AddString(s)
	}
	fp.Add(uint64(mode), uint64(o.Evals), uint64(len(ch.Trace)))
	for _, v := range ch.Trace {
		fp.Add(v)
	}
	o.Fingerprint = fp.Sum()
	o.Nontrivial = len(st.opLog) > 0 || mode != 0
	o.Steps = clock.steps
	if st.aborted > 0 {
		o.Probes["history contained a call aborted half-way"]++
	}
	return o
}

func sortedNameKeys() []string {
	keys := make([]string, 0, len(ZooNameMap))
	for k := range ZooNameMap {
		keys = append(keys, k)
	}
	sort.Strings(keys)
	return keys
}
