package sim

import (
	"fmt"
	"hash/fnv"
	"reflect"
	"sort"
	"strings"
	"sync/atomic"

	hessian "github.com/vogo/gohessian"
)

// Outcome of one simulated run.
type Outcome struct {
	Class       string            `json:"class,omitempty"`  // "" = property held on this run
	Key         string            `json:"key,omitempty"`    // finer identification (e.g. innermost library function)
	Detail      string            `json:"detail,omitempty"` // human readable
	Extra       map[string]string `json:"extra,omitempty"`  // engine specific, stored in the replay file
	Fingerprint uint64            `json:"fp"`
	Nontrivial  bool              `json:"nontrivial"`
	Skipped     bool              `json:"skipped,omitempty"`
	Fatal       bool              `json:"fatal,omitempty"` // the run left a goroutine stuck inside the library: the worker must exit
	// Unsupported: the run met something the simulator cannot represent (library-owned goroutines); no
	// verdict is derived from it and the worker stops with exit code 7
	Unsupported string           `json:"unsupported,omitempty"`
	SwitchPairs int              `json:"switch_pairs,omitempty"`
	Steps       uint64           `json:"steps"`
	Evals       int              `json:"evals"`
	Faults      map[string]int   `json:"faults,omitempty"`
	Probes      map[string]int   `json:"probes,omitempty"`
	Sample      interface{}      `json:"sample,omitempty"`
	post        func(o *Outcome) // run after the synctest bubble has ended (e.g. the porcupine check)
}

func newOutcome() *Outcome {
	return &Outcome{Faults: map[string]int{}, Probes: map[string]int{}}
}

func (o *Outcome) fail(class, key, format string, a ...interface{}) *Outcome {
	if o.Class == "" {
		o.Class = class
		o.Key = key
		o.Detail = fmt.Sprintf(format, a...)
	}
	return o
}

// RunCfg is the static configuration of a run (everything else comes from the choice stream).
type RunCfg struct {
	Prop string `json:"prop"`
	Tier string `json:"tier"`
	// Pin, when set, restricts an enumerating engine to one enumerated case (used by replay files
	// so that the replay shows exactly the failing fault).
	Pin string `json:"pin,omitempty"`
	// Strict doubles the thresholds of metric oracles (time / memory budgets). The shrinker runs with
	// it so that a minimised case is never borderline and replays robustly.
	Strict bool `json:"strict,omitempty"`
}

type Engine struct {
	Name string
	Run  func(ch *Choices, cfg *RunCfg) *Outcome
	// Race: the engine needs the -race build and a synctest bubble per run.
	Bubble bool
	// GCPerRun: collect before every run (engines whose verdict can depend on address reuse).
	GCPerRun bool
}

var engines = map[string]*Engine{}

func register(e *Engine) { engines[e.Name] = e }

// ---- the step hook: simulated clock for single-task engines -----------------------------------

type stepClock struct {
	steps       uint64
	budget      uint64 // 0 = unlimited
	exceeded    bool
	ring        [16]int32
	rp          int
	log         *Fingerprint
	exSite      int32 // site at which the budget was exceeded
	blocked     bool
	blockedSite int32
}

var clock stepClock

// progressBeat is bumped by every engine while it makes progress (scheduler decisions, evaluations);
// the worker's real-time monitor only declares a hang when it stops moving.
var progressBeat atomic.Int64

type budgetSentinel struct{}

// blockedSentinel is thrown by the VfBlocked hook of the single-task engines: a cooperative try-lock
// failed, and with a single task nobody else can ever release that lock.
type blockedSentinel struct{ site int32 }

func singleTaskBlocked() {
	// the verdict is taken from the flag, not from catching the sentinel: a library that recovers
	// panics at its entry points turns the sentinel into an ordinary error
	clock.blocked = true
	clock.blockedSite = callerSite()
	panic(blockedSentinel{clock.blockedSite})
}

//go:norace
func clockStep(site int32) {
	clock.steps++
	clock.ring[clock.rp&15] = site
	clock.rp++
	if clock.budget != 0 && clock.steps > clock.budget && !clock.exceeded {
		clock.exceeded = true
		clock.exSite = site
		panic(budgetSentinel{})
	}
}

func resetClock(budget uint64) {
	progressBeat.Add(1)
	clock = stepClock{budget: budget}
	hessian.VfStep = clockStep
	hessian.VfBlocked = singleTaskBlocked
}

// leafFuncs are the library's thin write helpers; the "site of a write" is the most recent step
// outside of them.
func isLeafWriter(fn string) bool {
	switch fn {
	case "Encoder.writeBT", "Encoder.writeBytes", "Encoder.writeString", "Encoder.writeInt", "Encoder.writeLong",
		"Encoder.writeDouble", "Encoder.writeBoolean", "Encoder.writeBinary":
		return true
	}
	return strings.HasSuffix(fn, ".Write") // a wrapper writer inside the library
}

// callerSite returns the most recent step site outside the leaf write helpers.
func callerSite() int32 {
	for i := 1; i <= 16 && i <= clock.rp; i++ {
		s := clock.ring[(clock.rp-i)&15]
		if int(s) < len(hessian.VfSites) && !isLeafWriter(hessian.VfSites[s].Func) {
			return s
		}
	}
	if clock.rp == 0 {
		return -1
	}
	return clock.ring[(clock.rp-1)&15]
}

func siteString(s int32) string {
	if s < 0 || int(s) >= len(hessian.VfSites) {
		return "?"
	}
	v := hessian.VfSites[s]
	return fmt.Sprintf("%s:%d(%s)", v.File, v.Line, v.Func)
}

func siteFunc(s int32) string {
	if s < 0 || int(s) >= len(hessian.VfSites) {
		return "?"
	}
	return hessian.VfSites[s].Func
}

// ---- seeded map order -------------------------------------------------------------------------

var mapSalt uint64

// setMapOrder installs the map-key seam: keys are sorted canonically, then permuted by a pure
// function of the run's salt (salt 0 = canonical order).
func setMapOrder(salt uint64) {
	mapSalt = salt
	hessian.VfMapKeys = orderedKeys
}

func orderedKeys(keys []reflect.Value) []reflect.Value {
	if len(keys) < 2 {
		return keys
	}
	type ks struct {
		s string
		h uint64
		v reflect.Value
	}
	salt := mapSalt
	arr := make([]ks, len(keys))
	for i, k := range keys {
		s := keyString(k, CanonOpts{})
		var h uint64
		if salt != 0 {
			f := fnv.New64a()
			f.Write([]byte(s))
			h = mix64(f.Sum64() ^ salt)
		}
		arr[i] = ks{s, h, k}
	}
	sort.Slice(arr, func(i, j int) bool {
		if arr[i].h != arr[j].h {
			return arr[i].h < arr[j].h
		}
		return arr[i].s < arr[j].s
	})
	out := make([]reflect.Value, len(keys))
	for i := range arr {
		out[i] = arr[i].v
	}
	return out
}

func hashString(s string) uint64 {
	f := fnv.New64a()
	f.Write([]byte(s))
	return f.Sum64()
}

func hashBytes(b []byte) uint64 {
	f := fnv.New64a()
	f.Write(b)
	return f.Sum64()
}

// describe renders a value briefly for evidence samples.
func describe(v interface{}) string {
	s, _ := Canon(v, CanonOpts{})
	return clip(s, 160)
}

// ---- no-op logger -----------------------------------------------------------------------------

// nopLogger formats its arguments like the default logger does (a value that cannot be formatted is a
// defect the default configuration would meet) but writes nothing and reads no clock.
type nopLogger struct{}

func (nopLogger) Info(args ...interface{})                  { _ = fmt.Sprint(args...) }
func (nopLogger) Warn(args ...interface{})                  { _ = fmt.Sprint(args...) }
func (nopLogger) Error(args ...interface{})                 { _ = fmt.Sprint(args...) }
func (nopLogger) Debug(args ...interface{})                 { _ = fmt.Sprint(args...) }
func (nopLogger) Infof(format string, args ...interface{})  { _ = fmt.Sprintf(format, args...) }
func (nopLogger) Warnf(format string, args ...interface{})  { _ = fmt.Sprintf(format, args...) }
func (nopLogger) Errorf(format string, args ...interface{}) { _ = fmt.Sprintf(format, args...) }
func (nopLogger) Debugf(format string, args ...interface{}) { _ = fmt.Sprintf(format, args...) }
func (nopLogger) Printf(format string, args ...interface{}) { _ = fmt.Sprintf(format, args...) }
func (nopLogger) Println(args ...interface{})               { _ = fmt.Sprint(args...) }
