package sim

// C12 — distinct serializers / encoders / decoders sharing one type map and one name map run
// concurrently: every call returns what it returns when run alone, no unsynchronised access.
//
// System: N caller tasks under the seeded scheduler (statement-level preemption inside every
// library function), -race build with the hand-off hidden from the detector. Shared between
// tasks: the maps, read-only input values (incl. cyclic graphs) and, optionally, a pool.

import (
	"bufio"
	"bytes"
	"fmt"
	"reflect"
	"strings"

	hessian "github.com/vogo/gohessian"
)

func init() { register(&Engine{Name: "C12", Run: runC12, Bubble: true}) }

func c12Domain() Domain {
	return Domain{Untyped: true, LooseDyn: true, EmptyStringElems: true, NilPtrElems: true, ZeroTimeElems: true, BigStrings: true, BigBinaries: true,
		FarDates: true, AllDoubles: true, OddMaps: true, MaxListLen: 6, MaxMapLen: 4}
}

const (
	c12ToBytes = iota
	c12ToObject
	c12WriteRead
	c12Stream
	c12DecodeForeign
	c12DecodeThenRead
	nC12Op
)

var c12OpNames = []string{"ToBytes", "ToBytes+ToObject", "WriteTo+ReadFrom", "stream(WriteObject x2, ReadObject x2)", "ToObject(stream of a peer: evolved class / foreign encodings)", "ToObject(bytes holding two values) then Read"}

type c12Op struct {
	kind int
	a, b int // indices into the shared inputs
}

// c12Res is what one op returns, rendered for comparison.
type c12Res struct {
	bytes  []byte
	canon  []string
	errs   []string
	panicS string
}

func (r *c12Res) String() string {
	return fmt.Sprintf("bytes=%x canon=%v errs=%v panic=%q", clipBytes(r.bytes, 48), clipStrs(r.canon, 100), r.errs, r.panicS)
}

func clipBytes(b []byte, n int) []byte {
	if len(b) > n {
		return b[:n]
	}
	return b
}

func clipStrs(s []string, n int) []string {
	out := make([]string, len(s))
	for i := range s {
		out[i] = clip(s[i], n)
	}
	return out
}

func (r *c12Res) equal(o *c12Res) bool {
	if !bytes.Equal(r.bytes, o.bytes) || len(r.canon) != len(o.canon) || len(r.errs) != len(o.errs) || r.panicS != o.panicS {
		return false
	}
	for i := range r.canon {
		if r.canon[i] != o.canon[i] {
			return false
		}
	}
	for i := range r.errs {
		if r.errs[i] != o.errs[i] {
			return false
		}
	}
	return true
}

type c12Shared struct {
	inputs  []interface{}
	foreign [][]byte // byte streams of a peer (evolved classes with unknown fields, non-canonical encodings)
	// the maps shared by every task of the run: fresh copies per run, so that a write into the caller's
	// map that happens only on first use happens in every run, not only in a cold process
	tm  map[string]reflect.Type
	nm  map[string]string
	tm0 map[string]reflect.Type // the odd entries as registered before the run
}

// c12Inst is the instance a task owns: a Serializer, or an Encoder + Decoder pair.
type c12Inst struct {
	ser hessian.Serializer
	enc *hessian.Encoder
	dec *hessian.Decoder
}

func c12NewInst(pair bool, sh *c12Shared) *c12Inst {
	if pair {
		return &c12Inst{enc: hessian.NewEncoder(nil, sh.nm), dec: hessian.NewDecoder(nil, sh.tm)}
	}
	return &c12Inst{ser: hessian.NewSerializer(sh.tm, sh.nm)}
}

func c12Exec(in *c12Inst, sh *c12Shared, op c12Op) (res *c12Res) {
	res = &c12Res{}
	defer func() {
		if r := recover(); r != nil {
			if _, ok := r.(budgetSentinel); ok {
				panic(r)
			}
			res.panicS = maskErr(fmt.Errorf("%v", r))
		}
	}()
	addVal := func(v interface{}, err error) {
		c, _ := Canon(v, CanonOpts{})
		res.canon = append(res.canon, c)
		res.errs = append(res.errs, maskErr(err))
	}
	switch op.kind {
	case c12ToBytes:
		var b []byte
		var err error
		if in.ser != nil {
			b, err = in.ser.ToBytes(sh.inputs[op.a])
		} else {
			b, err = in.enc.Encode(sh.inputs[op.a])
		}
		res.bytes = append([]byte(nil), b...)
		res.errs = append(res.errs, maskErr(err))
	case c12ToObject:
		// round trip through the task's own bytes
		var b []byte
		var err error
		if in.ser != nil {
			b, err = in.ser.ToBytes(sh.inputs[op.a])
		} else {
			b, err = in.enc.Encode(sh.inputs[op.a])
		}
		res.bytes = append([]byte(nil), b...)
		res.errs = append(res.errs, maskErr(err))
		if err != nil {
			b = []byte{'N'}
		}
		if in.ser != nil {
			addVal(in.ser.ToObject(b))
		} else {
			addVal(in.dec.Decode(b))
		}
	case c12WriteRead:
		var buf bytes.Buffer
		var err error
		if in.ser != nil {
			err = in.ser.WriteTo(&buf, sh.inputs[op.a])
		} else {
			err = in.enc.WriteTo(&buf, sh.inputs[op.a])
		}
		res.errs = append(res.errs, maskErr(err))
		res.bytes = append([]byte(nil), buf.Bytes()...)
		rd := bufio.NewReader(bytes.NewReader(buf.Bytes()))
		if in.ser != nil {
			addVal(in.ser.ReadFrom(rd))
		} else {
			addVal(in.dec.ReadFrom(rd))
		}
	case c12DecodeThenRead:
		// a byte slice holding two values: the first is taken with the one-shot call, the second with the
		// streaming read on the same instance
		var buf bytes.Buffer
		if in.ser != nil {
			res.errs = append(res.errs, maskErr(in.ser.WriteTo(&buf, sh.inputs[op.a])))
			res.errs = append(res.errs, maskErr(in.ser.Write(sh.inputs[op.b])))
			data := append([]byte(nil), buf.Bytes()...)
			addVal(in.ser.ToObject(data))
			addVal(in.ser.Read())
		} else {
			in.enc.Reset(&buf)
			res.errs = append(res.errs, maskErr(in.enc.WriteObject(sh.inputs[op.a])))
			res.errs = append(res.errs, maskErr(in.enc.WriteObject(sh.inputs[op.b])))
			data := append([]byte(nil), buf.Bytes()...)
			addVal(in.dec.Decode(data))
			addVal(in.dec.ReadObject())
		}
	case c12DecodeForeign:
		b := sh.foreign[op.a%len(sh.foreign)]
		if in.ser != nil {
			addVal(in.ser.ToObject(b))
		} else {
			addVal(in.dec.Decode(b))
		}
	case c12Stream:
		var buf bytes.Buffer
		if in.ser != nil {
			res.errs = append(res.errs, maskErr(in.ser.WriteTo(&buf, sh.inputs[op.a])))
			res.errs = append(res.errs, maskErr(in.ser.Write(sh.inputs[op.b])))
		} else {
			in.enc.Reset(&buf)
			res.errs = append(res.errs, maskErr(in.enc.WriteObject(sh.inputs[op.a])))
			res.errs = append(res.errs, maskErr(in.enc.WriteObject(sh.inputs[op.b])))
		}
		res.bytes = append([]byte(nil), buf.Bytes()...)
		rd := bufio.NewReader(bytes.NewReader(buf.Bytes()))
		if in.ser != nil {
			addVal(in.ser.ReadFrom(rd))
			addVal(in.ser.Read())
		} else {
			in.dec.Reset(rd)
			addVal(in.dec.ReadObject())
			addVal(in.dec.ReadObject())
		}
	}
	return res
}

func runC12(ch *Choices, cfg *RunCfg) (o *Outcome) {
	o = newOutcome()
	setMapOrder(ch.Salt("mapsalt"))
	// ---- shared inputs and scripts (all drawn before any scheduling decision) ----
	// task count first: many tasks get small values, so that a run stays short
	var ntasks int
	switch ch.Pick([]int{55, 30, 10, 5}, "ntasks.kind") {
	case 0:
		ntasks = ch.Range(2, 3, "ntasks")
	case 1:
		ntasks = ch.Range(2, 8, "ntasks")
	case 2:
		ntasks = ch.Range(8, 24, "ntasks")
	default:
		ntasks = ch.Range(32, 64, "ntasks")
	}
	dom := c12Domain()
	if ntasks > 8 {
		dom.BigStrings, dom.BigBinaries, dom.MaxListLen = false, false, 4
	}
	g := NewGen(ch, dom)
	nin := ch.Range(1, 4, "ninputs")
	sh := &c12Shared{}
	sh.tm, sh.nm = copyMaps()
	javaNames := ch.Intn(4, "maps.javanames") == 1
	if javaNames {
		sh.tm, sh.nm, _ = VariantMaps(ch)
		o.Probes["shared maps with Java-style list / class names"]++
	}
	tmStart, nmStart := map[string]reflect.Type{}, map[string]string{}
	for k, v := range sh.tm {
		tmStart[k] = v
	}
	for k, v := range sh.nm {
		nmStart[k] = v
	}
	oddMap := ch.Intn(5, "tm.odd") == 1
	if oddMap {
		// a legal but unusual registration: some classes registered through a pointer type (RegisterVal(k, &T{}))
		salt := ch.Salt("tm.oddsalt")
		for _, k := range sortedTypeKeys() {
			if t := sh.tm[k]; t.Kind() == reflect.Struct && mix64(hashString(k)^salt)%3 == 0 {
				sh.tm[k] = reflect.PtrTo(t)
				if sh.tm0 == nil {
					sh.tm0 = map[string]reflect.Type{}
				}
				sh.tm0[k] = sh.tm[k]
			}
		}
		o.Probes["shared type map with classes registered through pointer types"]++
	}
	for i := 0; i < nin; i++ {
		if ch.Intn(6, "input.manyclasses") == 1 {
			// one message that mentions many distinct classes (class tables beyond their initial capacity)
			sh.inputs = append(sh.inputs, g.ManyClasses(ch.Range(12, 24, "manyclasses.k")))
			o.Probes["input with 12..24 distinct classes in one message"]++
			continue
		}
		sh.inputs = append(sh.inputs, g.Value())
	}
	nforeign := ch.Range(1, 4, "nforeign")
	for i := 0; i < nforeign; i++ {
		switch ch.Pick([]int{35, 30, 15, 20, 15}, "foreign.kind") {
		case 4:
			// a message with a binary in several chunks: every task that decodes it gets the same bytes
			sh.foreign = append(sh.foreign, foreignChunkedBlob(ch))
			o.Probes["shared peer message with a multi-chunk binary"]++
		case 0:
			sh.foreign = append(sh.foreign, foreignEvolvedObject(ch))
		case 1:
			b, _, _ := foreignStream(ch, false)
			sh.foreign = append(sh.foreign, b)
		case 2:
			// a hostile peer (kept small: the point here is shared state, not cost)
			b, _, _ := hostileStreamN(ch)
			if len(b) > 3000 {
				b = b[:3000]
			}
			sh.foreign = append(sh.foreign, b)
		default:
			// a damaged message (built without any library call: the library must stay cold until the tasks run)
			b, _, _ := foreignStream(ch, false)
			b, _, _ = ApplyPlan(b, c14DrawPlan(ch, len(b), nil))
			sh.foreign = append(sh.foreign, b)
		}
	}
	pair := ch.Intn(2, "inst.pair") == 1
	pooled := ch.Intn(3, "pooled") == 1
	poolSize := ch.Intn(9, "pool.size")
	scripts := make([][]c12Op, ntasks)
	opBudget := 60
	for t := range scripts {
		n := ch.Range(1, 6, "script.len")
		if ntasks > 8 && n > 2 {
			n = 2
		}
		for i := 0; i < n && opBudget > 0; i++ {
			op := c12Op{kind: ch.Intn(nC12Op, "op.kind"), a: ch.Intn(nin, "op.a"), b: ch.Intn(nin, "op.b")}
			if op.kind == c12DecodeForeign {
				op.a = ch.Intn(nforeign, "op.foreign")
			}
			scripts[t] = append(scripts[t], op)
			opBudget--
		}
	}
	policy := []int{polRandom, polRoundRobin, polPCT}[ch.Pick([]int{60, 15, 25}, "policy")]
	meanQ := []int{1, 3, 10, 100}[ch.Intn(4, "meanq")]

	// NOTE: no library call is made before the concurrent phase: state that the library initialises
	// lazily must be cold when the tasks start (the first run of every worker process; the supervisor
	// adds a batch of one-run processes for exactly this reason). Expected results are computed afterwards.
	inputsBefore := make([]string, nin)
	for i, v := range sh.inputs {
		inputsBefore[i], _ = Canon(v, CanonOpts{})
	}
	foreignBefore := make([][]byte, len(sh.foreign))
	for i, b := range sh.foreign {
		foreignBefore[i] = append([]byte(nil), b...)
	}
	mapsBefore := mapsDigest(sh.tm, sh.nm)

	// ---- concurrent phase ----
	runAll := func(policy, meanQ int, stalls bool) (*Sched, [][]*c12Res) {
		var pool hessian.Pool
		if pooled {
			if pair {
				pool = nil // pairs are pooled separately below
			} else {
				pool = hessian.NewSerializerPool(poolSize, sh.tm, sh.nm)
			}
		}
		var encPool, decPool hessian.Pool
		if pooled && pair {
			encPool = hessian.NewEncoderPool(poolSize, sh.nm)
			decPool = hessian.NewDecoderPool(poolSize, sh.tm)
		}
		s := NewSched(ch, policy, meanQ)
		s.MaxSteps = 300_000_000 // hard cap only; the progress oracle compares with the solo cost afterwards
		if stalls {
			s.StallP = ch.Intn(40, "stallp")
		}
		got := make([][]*c12Res, ntasks)
		for t := 0; t < ntasks; t++ {
			got[t] = make([]*c12Res, len(scripts[t]))
			script := scripts[t]
			slot := got[t]
			s.Spawn(func(tk *Task) {
				var in *c12Inst
				for i, op := range script {
					switch {
					case pool != nil:
						x := pool.Get()
						ser, _ := x.(hessian.Serializer)
						in = &c12Inst{ser: ser}
						slot[i] = c12Exec(in, sh, op)
						pool.Return(x)
					case encPool != nil:
						e := encPool.Get()
						d := decPool.Get()
						enc, _ := e.(*hessian.Encoder)
						dec, _ := d.(*hessian.Decoder)
						in = &c12Inst{enc: enc, dec: dec}
						slot[i] = c12Exec(in, sh, op)
						encPool.Return(e)
						decPool.Return(d)
					default:
						if in == nil {
							in = c12NewInst(pair, sh)
						}
						slot[i] = c12Exec(in, sh, op)
					}
				}
			})
		}
		s.Run()
		return s, got
	}
	stalls := ch.Intn(3, "stalls.on") == 1
	s, got := runAll(policy, meanQ, stalls)
	o.Steps = s.Steps
	o.Evals = 1
	o.Fingerprint = s.fp.Sum()
	o.Nontrivial = s.Switches > 0
	o.SwitchPairs = len(s.SwitchSet)
	o.Faults["context switch inside the library"] += s.Switches
	o.Faults["task stalled"] += s.Stalls
	o.Faults["task waited for a library lock held by a preempted task"] += s.LockWaits
	nops := 0
	for _, sc := range scripts {
		nops += len(sc)
	}
	o.Sample = map[string]interface{}{"tasks": ntasks, "ops": nops, "inputs": nin, "pooled": pooled, "encoder_decoder_pair": pair, "policy": policy, "mean_quantum": meanQ,
		"context_switches": s.Switches, "first_input": describe(sh.inputs[0]), "script_task0": fmt.Sprint(scripts[0])}
	if s.BlockedTask != nil {
		o.Fatal = true
		site := s.BlockedTask.lastSite
		return o.fail("c12/blocked", siteFunc(site), "%d tasks: task %d is durably blocked inside the library after %s", ntasks, s.BlockedTask.ID, siteString(site))
	}
	if s.Deadlock {
		return o.fail("c12/blocked", "lock", "%d tasks: every live task waits for a library lock that no runnable task holds", ntasks)
	}
	if s.Overrun {
		return o.fail("c12/no-progress", "run", "run exceeded %d simulated steps", s.MaxSteps)
	}
	concurrentSteps := s.Steps
	if ntasks >= 32 {
		o.Probes[">= 32 tasks"]++
	}
	if pooled {
		o.Probes["instances obtained from a shared pool"]++
	}
	for p := range s.SwitchSet {
		f := siteFunc(p[0])
		switch {
		case f == "Encoder.writeObject" || f == "Encoder.writeClsDef" || f == "Encoder.existClassDef":
			o.Probes["switch inside writeObject / class-table lookup"]++
		case f == "encodeString" || f == "encodeBinary":
			o.Probes["switch inside encodeString / encodeBinary"]++
		case f == "Encoder.writeMap":
			o.Probes["switch inside writeMap"]++
		case strings.HasPrefix(f, "objectPool."):
			o.Probes["switch inside pool Get / Return"]++
		case strings.HasPrefix(f, "Decoder."):
			o.Probes["switch inside a decoder function"]++
		default:
			continue
		}
	}

	// ---- solo phase (afterwards): the expected result of every op, on fresh instances, run alone ----
	// (over pristine copies of the maps as they were before the concurrent phase)
	resetClock(0)
	soloShared := &c12Shared{inputs: sh.inputs, foreign: foreignBefore} // the messages as they were handed in
	soloShared.tm, soloShared.nm = tmStart, nmStart
	if oddMap {
		for k, t := range sh.tm0 {
			soloShared.tm[k] = t
		}
	}
	expected := make([][]*c12Res, ntasks)
	for t := range scripts {
		for _, op := range scripts[t] {
			expected[t] = append(expected[t], c12Exec(c12NewInst(pair, soloShared), sh, op))
		}
	}

	soloSteps := clock.steps
	if lim := 4*soloSteps + 1_000_000; concurrentSteps > lim && !cfg.Strict || concurrentSteps > 2*lim {
		o.fail("c12/no-progress", "steps", "%d tasks: the concurrent phase executed %d library statements, the same calls run alone %d (limit 4x + 1e6): calls do not return what they return alone within comparable work", ntasks, concurrentSteps, soloSteps)
	}

	// ---- oracles ----
	mismatch := func(got [][]*c12Res) (int, int) {
		for t := range scripts {
			for i := range scripts[t] {
				if got[t][i] == nil || !got[t][i].equal(expected[t][i]) {
					return t, i
				}
			}
		}
		return -1, -1
	}
	if t, i := mismatch(got); t >= 0 {
		// control: the same scripts strictly one task after another. If that differs from the solo
		// results too, the defect is not an interleaving defect (reuse: C11's business).
		_, ctl := runAll(polSequential, 1, false)
		if ct, _ := mismatch(ctl); ct >= 0 {
			o.Probes["sequential control differs from solo results too (not an interleaving defect; not reported here)"]++
		} else {
			gs := "<nil>"
			if got[t][i] != nil {
				gs = got[t][i].String()
			}
			o.fail("c12/result", c12OpNames[scripts[t][i].kind], "%d tasks (pooled=%v pair=%v policy=%d q=%d): task %d op #%d %s(input %d) returned %s, but alone it returns %s; the sequential control agrees with the solo result",
				ntasks, pooled, pair, policy, meanQ, t, i, c12OpNames[scripts[t][i].kind], scripts[t][i].a, gs, expected[t][i].String())
			_ = nforeign
		}
	}
	for i, v := range sh.inputs {
		c, _ := Canon(v, CanonOpts{})
		if c != inputsBefore[i] {
			o.fail("c12/shared-mutated", "input", "shared input #%d changed during the concurrent phase: %s", i, firstDiff(inputsBefore[i], c))
		}
	}
	for i, b := range sh.foreign {
		if !bytes.Equal(b, foreignBefore[i]) {
			o.fail("c12/shared-mutated", "message", "the bytes of shared message #%d (%d bytes, decoded by several tasks) were modified during the concurrent phase", i, len(b))
		}
	}
	if d := mapsDigest(sh.tm, sh.nm); d != mapsBefore {
		o.fail("c12/shared-mutated", "maps", "the shared type/name map changed during the concurrent phase: %s", firstDiff(mapsBefore, d))
	}
	return o
}
