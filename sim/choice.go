package sim

// The choice stream: the single source of every decision in a simulated run.
//
// Generate mode draws from a splitmix64 PRNG seeded from (VERIF_SEED, run index) and records
// every draw. Replay mode serves recorded draws (clamped to the bound), then zeros.
// Generators are written so that 0 is the simplest choice; that is what makes the
// trace-level shrinker (Shrink) effective.

import (
	"fmt"
	"hash/fnv"
)

type Choices struct {
	state   uint64
	replay  []uint64
	replayM bool
	pos     int
	Trace   []uint64
	Labels  []string // parallel to Trace, only kept when KeepLabels
	Keep    bool
	Limit   int // max draws per run (0 = default); exceeding it sets Overrun and returns zeros
	Overrun bool
	// Sink: replay-by-seed of a run that kills its process. Every draw is stored at once into a
	// shared file mapping (plain memory stores: no system call and no synchronisation event that could
	// perturb the race detector); the first 8 bytes hold the number of draws.
	Sink []byte
}

const defaultDrawLimit = 2_000_000

func mix64(z uint64) uint64 {
	z += 0x9e3779b97f4a7c15
	z = (z ^ (z >> 30)) * 0xbf58476d1ce4e5b9
	z = (z ^ (z >> 27)) * 0x94d049bb133111eb
	return z ^ (z >> 31)
}

// NewChoices returns a generating stream for (seed, run).
func NewChoices(seed int64, run int64) *Choices {
	s := mix64(uint64(seed)) ^ mix64(uint64(run)*0x632be59bd9b4e019+0x1234567)
	return &Choices{state: s}
}

// ReplayChoices returns a stream that replays trace.
func ReplayChoices(trace []uint64) *Choices {
	return &Choices{replay: trace, replayM: true}
}

func (c *Choices) next() uint64 {
	c.state += 0x9e3779b97f4a7c15
	z := c.state
	z = (z ^ (z >> 30)) * 0xbf58476d1ce4e5b9
	z = (z ^ (z >> 27)) * 0x94d049bb133111eb
	return z ^ (z >> 31)
}

// Intn returns a value in [0, bound). bound <= 1 returns 0 without consuming a draw.
func (c *Choices) Intn(bound int, label string) int {
	if bound <= 1 {
		return 0
	}
	lim := c.Limit
	if lim == 0 {
		lim = defaultDrawLimit
	}
	if len(c.Trace) >= lim {
		c.Overrun = true
		return 0
	}
	var v uint64
	if c.replayM {
		if c.pos < len(c.replay) {
			v = c.replay[c.pos]
			c.pos++
			if v >= uint64(bound) {
				v = uint64(bound - 1)
			}
		}
	} else {
		v = c.next() % uint64(bound)
	}
	c.Trace = append(c.Trace, v)
	if c.Sink != nil {
		n := len(c.Trace)
		if off := 8 * n; off+8 <= len(c.Sink) {
			for i := 0; i < 8; i++ {
				c.Sink[off+i] = byte(v >> (8 * uint(i)))
				c.Sink[i] = byte(uint64(n) >> (8 * uint(i)))
			}
		}
	}
	if c.Keep {
		c.Labels = append(c.Labels, label)
	}
	return int(v)
}

// Bool is true with probability num/den (false = 0 = the simple choice).
func (c *Choices) Bool(num, den int, label string) bool {
	if num <= 0 {
		return false
	}
	if num >= den {
		// still consume a draw so that shrinking can turn it off? No: certain choices are not choices.
		return true
	}
	// value v in [0,den): true iff v >= den-num, so that 0 maps to false
	return c.Intn(den, label) >= den-num
}

// Range returns a value in [lo, hi].
func (c *Choices) Range(lo, hi int, label string) int {
	if hi <= lo {
		return lo
	}
	return lo + c.Intn(hi-lo+1, label)
}

// Pick returns an index into a weight table; index 0 should be the simplest alternative.
func (c *Choices) Pick(weights []int, label string) int {
	total := 0
	for _, w := range weights {
		total += w
	}
	if total <= 0 {
		return 0
	}
	v := c.Intn(total, label)
	for i, w := range weights {
		if v < w {
			return i
		}
		v -= w
	}
	return len(weights) - 1
}

// Uint64 draws a full-width value in pieces (so each piece shrinks toward 0).
func (c *Choices) Uint64(label string) uint64 {
	hi := uint64(c.Intn(1<<16, label))
	m1 := uint64(c.Intn(1<<16, label))
	m2 := uint64(c.Intn(1<<16, label))
	lo := uint64(c.Intn(1<<16, label))
	return hi<<48 | m1<<32 | m2<<16 | lo
}

// Salt is a per-run value that is drawn once and may be used by pure functions (e.g. the
// map-key permutation) without touching the stream again.
func (c *Choices) Salt(label string) uint64 {
	return uint64(c.Intn(1<<30, label))
}

// ---------------------------------------------------------------------------------------------
// Event log fingerprint. Logging never draws from the stream and never reads a clock.

type Fingerprint struct {
	h uint64
	n int
}

func NewFingerprint() *Fingerprint { return &Fingerprint{h: 1469598103934665603} }

//go:norace
func (f *Fingerprint) Add(vals ...uint64) {
	for _, v := range vals {
		for i := 0; i < 8; i++ {
			f.h ^= (v >> (8 * uint(i))) & 0xff
			f.h *= 1099511628211
		}
	}
	f.n++
}

func (f *Fingerprint) AddString(s string) {
	h := fnv.New64a()
	h.Write([]byte(s))
	f.Add(h.Sum64())
}

func (f *Fingerprint) Sum() uint64 { return f.h }

// ---------------------------------------------------------------------------------------------
// Trace shrinker. test must return the violation class ("" when the run passes). A candidate is
// kept when it yields the same class as the original. budget bounds the number of test calls.

func Shrink(trace []uint64, class string, budget int, test func([]uint64) (string, []uint64)) ([]uint64, int) {
	cur := append([]uint64(nil), trace...)
	calls := 0
	try := func(cand []uint64) bool {
		if calls >= budget {
			return false
		}
		calls++
		got, used := test(cand)
		if got == class {
			// adopt the draws the run actually consumed (drops unused tail, applies clamping)
			if used != nil && len(used) <= len(cand) {
				cur = append([]uint64(nil), used...)
			} else {
				cur = append([]uint64(nil), cand...)
			}
			return true
		}
		return false
	}
	// normalise first
	try(cur)
	improved := true
	for improved && calls < budget {
		improved = false
		// 1. delete blocks, large to small
		for size := len(cur) / 2; size >= 1 && calls < budget; size /= 2 {
			for i := 0; i+size <= len(cur) && calls < budget; {
				cand := append(append([]uint64(nil), cur[:i]...), cur[i+size:]...)
				if try(cand) {
					improved = true
				} else {
					i += size
				}
			}
			if size == 1 {
				break
			}
		}
		// 2. zero blocks
		for size := len(cur) / 2; size >= 1 && calls < budget; size /= 2 {
			for i := 0; i+size <= len(cur) && calls < budget; i += size {
				allZero := true
				for _, v := range cur[i : i+size] {
					if v != 0 {
						allZero = false
						break
					}
				}
				if allZero {
					continue
				}
				cand := append([]uint64(nil), cur...)
				for j := i; j < i+size; j++ {
					cand[j] = 0
				}
				if try(cand) {
					improved = true
				}
			}
			if size == 1 {
				break
			}
		}
		// 3. lower single values: halve, decrement
		for i := 0; i < len(cur) && calls < budget; i++ {
			for i < len(cur) && cur[i] > 0 && calls < budget {
				cand := append([]uint64(nil), cur...)
				cand[i] = cur[i] / 2
				if try(cand) {
					improved = true
					continue
				}
				if i < len(cur) && cur[i] > 1 {
					cand = append([]uint64(nil), cur...)
					cand[i] = cur[i] - 1
					if try(cand) {
						improved = true
						continue
					}
				}
				break
			}
		}
	}
	return cur, calls
}

func traceString(t []uint64) string {
	return fmt.Sprint(t)
}
