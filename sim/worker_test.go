package sim

// The worker: a compiled test binary (testing/synctest needs a *testing.T) driven by the
// supervisor through the VF_ARGS environment variable. One OS process per worker.

import (
	"encoding/binary"
	"encoding/json"
	"fmt"
	"os"
	"runtime"
	"runtime/debug"
	"strings"
	"sync/atomic"
	"syscall"
	"testing"
	"testing/synctest"
	"time"

	hessian "github.com/vogo/gohessian"
)

type WorkerArgs struct {
	Prop     string `json:"prop"`
	Mode     string `json:"mode"` // explore | replay | shrink
	Seed     int64  `json:"seed"`
	From     int64  `json:"from"`
	Stride   int64  `json:"stride"`
	Count    int64  `json:"count"`
	Tier     string `json:"tier"`
	Out      string `json:"out"`
	Cur      string `json:"cur"`  // file that always holds the index of the run in flight
	File     string `json:"file"` // replay file (replay / shrink)
	Budget   int    `json:"budget"`
	Known    string `json:"known"`
	Labels   bool   `json:"labels"`
	TraceOut string `json:"trace_out"`
}

type Violation struct {
	Property string            `json:"property"`
	Class    string            `json:"class"`
	Key      string            `json:"key"`
	Detail   string            `json:"detail"`
	Seed     int64             `json:"seed"`
	Run      int64             `json:"run"`
	Tier     string            `json:"tier"`
	Pin      string            `json:"pin,omitempty"`
	Extra    map[string]string `json:"extra,omitempty"`
	Trace    []uint64          `json:"trace"`
	Labels   []string          `json:"labels,omitempty"`
	Shrunk   bool              `json:"shrunk"`
	Calls    int               `json:"shrink_calls,omitempty"`
	Fp       uint64            `json:"fingerprint"`
	// Prelude: run indices (of the same seed) executed in the same process before the replayed run. Set
	// when the violation depends on what earlier runs left behind in package-level variables of the library.
	Prelude []int64 `json:"prelude,omitempty"`
}

type KnownFinding struct {
	Property string `json:"property"`
	ID       string `json:"id"`
	Class    string `json:"class"`
	Key      string `json:"key"`
	What     string `json:"what"`
	Replay   string `json:"replay,omitempty"`
}

type WorkerResult struct {
	Runs       int64                 `json:"runs"`
	Skipped    int64                 `json:"skipped"`
	Evals      int64                 `json:"evals"`
	Steps      uint64                `json:"steps"`
	Nontrivial int64                 `json:"nontrivial"`
	Faults     map[string]int        `json:"faults"`
	Probes     map[string]int        `json:"probes"`
	Fps        []uint64              `json:"fps"`
	AllFps     []uint64              `json:"all_fps,omitempty"`
	Samples    []interface{}         `json:"samples"`
	Violation  *Violation            `json:"violation,omitempty"`
	KnownHits  map[string]int64      `json:"known_hits,omitempty"`
	KnownFirst map[string]*Violation `json:"known_first,omitempty"`
	WallS      float64               `json:"wall_s"`
	Outcome    *Outcome              `json:"outcome,omitempty"` // replay mode
	Sites      int                   `json:"sites"`
}

func loadKnown(path, prop string) []KnownFinding {
	if path == "" {
		return nil
	}
	b, err := os.ReadFile(path)
	if err != nil {
		return nil
	}
	var f struct {
		Findings []KnownFinding `json:"findings"`
	}
	if json.Unmarshal(b, &f) != nil {
		return nil
	}
	var out []KnownFinding
	for _, k := range f.Findings {
		if k.Property == prop {
			out = append(out, k)
		}
	}
	return out
}

func matchKnown(known []KnownFinding, o *Outcome) string {
	for _, k := range known {
		if k.Class == o.Class && (k.Key == o.Key || k.Key == "*") {
			return k.ID
		}
	}
	return ""
}

// runOnce executes one run of the engine, in a synctest bubble when the engine needs one.
func runOnce(t *testing.T, e *Engine, ch *Choices, cfg *RunCfg) (o *Outcome) {
	if !e.Bubble {
		return e.Run(ch, cfg)
	}
	defer func() {
		// synctest panics when the bubble's main function has returned but goroutines are still parked in
		// it. The tasks have all ended by then (or the run was Fatal): what remains are goroutines the
		// LIBRARY started (a janitor, a reporter). The simulator schedules caller tasks only.
		if r := recover(); r != nil {
			msg := fmt.Sprint(r)
			if strings.HasPrefix(msg, "deadlock:") && strings.Contains(msg, "bubble") {
				if o != nil && strings.Contains(msg, "main bubble goroutine has exited") {
					// the run is over and has its outcome; goroutines the library started (a janitor, a
					// timed hand-off) are still parked and stay behind in the finished bubble
					o.Probes["goroutines of the library were still parked when the run ended"]++
					if o.post != nil {
						o.post(o)
						o.post = nil
					}
					return
				}
				// every goroutine of the bubble blocked while the run was in progress, and the scheduler's
				// own block detection did not see it as a task stuck in the library: not representable
				if o == nil {
					o = newOutcome()
				}
				o.Unsupported = "synctest: " + msg + " (while the run was in progress; the simulator schedules caller tasks only)"
				unsupportedExit(o)
			}
			panic(r)
		}
	}()
	synctest.Test(t, func(t *testing.T) {
		g0 := runtime.NumGoroutine()
		o = e.Run(ch, cfg)
		if o.Unsupported == "" && !o.Fatal {
			// every task has ended; whatever else is alive in the bubble was started by the library
			synctest.Wait()
			if n := runtime.NumGoroutine() - g0; n > 0 {
				o.Probes["goroutines of the library alive when the run's tasks had all ended"] += n
			}
		}
		if o.Unsupported != "" {
			unsupportedExit(o)
		}
		if o.Fatal {
			// a goroutine is stuck inside the library and cannot be released; a bubble cannot end with
			// blocked goroutines, so the verdict is written and the process exits from inside
			fatalExit(o, ch)
		}
	})
	if o.post != nil {
		o.post(o)
		o.post = nil
	}
	return o
}

// fatalExit is installed by TestWorker: it records the outcome of a run that cannot return.
var fatalExit func(o *Outcome, ch *Choices)

// unsupportedExit ends the worker: the library does something the simulator cannot represent.
func unsupportedExit(o *Outcome) {
	fmt.Fprintln(os.Stderr, "worker: UNSUPPORTED:", o.Unsupported)
	os.Exit(7)
}

func TestWorker(t *testing.T) {
	raw := os.Getenv("VF_ARGS")
	if raw == "" {
		t.Skip("VF_ARGS not set")
	}
	var a WorkerArgs
	if err := json.Unmarshal([]byte(raw), &a); err != nil {
		fmt.Fprintln(os.Stderr, "worker: bad VF_ARGS:", err)
		os.Exit(2)
	}
	e := engines[a.Prop]
	if e == nil {
		fmt.Fprintln(os.Stderr, "worker: unknown engine", a.Prop)
		os.Exit(2)
	}
	debug.SetGCPercent(400)
	hessian.SetLogger(nopLogger{})
	if len(hessian.VfSites) == 0 {
		fmt.Fprintln(os.Stderr, "worker: library copy is not instrumented")
		os.Exit(2)
	}
	if err := InitZooMaps(); err != nil {
		fmt.Fprintln(os.Stderr, "worker: zoo maps:", err)
		os.Exit(2)
	}
	start := time.Now()
	res := &WorkerResult{Faults: map[string]int{}, Probes: map[string]int{}, KnownHits: map[string]int64{}, KnownFirst: map[string]*Violation{}, Sites: len(hessian.VfSites)}
	cfg := &RunCfg{Prop: a.Prop, Tier: a.Tier}
	var cur *os.File
	if a.Cur != "" {
		cur, _ = os.OpenFile(a.Cur, os.O_CREATE|os.O_WRONLY, 0o644)
	}
	announce := func(idx int64) {
		if cur != nil {
			var b [8]byte
			binary.LittleEndian.PutUint64(b[:], uint64(idx))
			cur.WriteAt(b[:], 0)
		}
	}
	finish := func(code int) {
		res.WallS = time.Since(start).Seconds()
		b, _ := json.Marshal(res)
		if a.Out != "" {
			if err := os.WriteFile(a.Out, b, 0o644); err != nil {
				fmt.Fprintln(os.Stderr, "worker:", err)
				os.Exit(2)
			}
		} else {
			os.Stdout.Write(b)
		}
		os.Exit(code)
	}

	var curIdxA atomic.Int64
	// real-time hang monitor (outside any bubble): a run that makes no progress for 60 s of wall time
	// is stuck somewhere the fake clock cannot see (a non-durable block or a statement-free spin)
	var beat atomic.Int64
	go func() {
		last, since := int64(-1), time.Now()
		for {
			time.Sleep(2 * time.Second)
			if b := beat.Load() + progressBeat.Load(); b != last {
				last, since = b, time.Now()
			} else if time.Since(since) > 60*time.Second {
				fmt.Fprintf(os.Stderr, "worker: HANG run=%d: no progress for 60 s of wall time\n", curIdxA.Load())
				os.Exit(5)
			}
		}
	}()
	fatalExit = func(o *Outcome, ch *Choices) {
		v := &Violation{Property: a.Prop, Class: o.Class, Key: o.Key, Detail: o.Detail, Seed: a.Seed, Run: curIdxA.Load(), Tier: a.Tier,
			Extra: map[string]string{"kills": "1"}, Trace: append([]uint64(nil), ch.Trace...), Fp: o.Fingerprint}
		res.Violation = v
		res.Outcome = o
		res.Runs++
		if a.Mode == "shrink" {
			finish(4) // the shrinker cannot continue in this process
		}
		finish(3)
	}

	switch a.Mode {
	case "explore":
		known := loadKnown(a.Known, a.Prop)
		for j := int64(0); j < a.Count; j++ {
			idx := a.From + j*a.Stride
			curIdxA.Store(idx)
			beat.Add(1)
			announce(idx)
			if e.GCPerRun {
				runtime.GC() // every run starts from a collected heap: allocation addresses depend on the run only
			}
			ch := NewChoices(a.Seed, idx)
			o := runOnce(t, e, ch, cfg)
			if o.Unsupported != "" {
				unsupportedExit(o)
			}
			res.Runs++
			res.Evals += int64(o.Evals)
			res.Steps += o.Steps
			if o.Skipped {
				res.Skipped++
			}
			for k, v := range o.Faults {
				res.Faults[k] += v
			}
			for k, v := range o.Probes {
				res.Probes[k] += v
			}
			if o.Nontrivial {
				res.Nontrivial++
				res.Fps = append(res.Fps, o.Fingerprint)
			}
			if a.Labels {
				res.AllFps = append(res.AllFps, o.Fingerprint)
			}
			if len(res.Samples) < 3 && o.Sample != nil && o.Nontrivial {
				res.Samples = append(res.Samples, map[string]interface{}{"run": idx, "case": o.Sample})
			}
			if o.Class != "" {
				v := &Violation{Property: a.Prop, Class: o.Class, Key: o.Key, Detail: o.Detail, Seed: a.Seed, Run: idx, Tier: a.Tier,
					Extra: o.Extra, Trace: append([]uint64(nil), ch.Trace...), Fp: o.Fingerprint}
				if o.Extra != nil {
					v.Pin = o.Extra["pin"]
				}
				if id := matchKnown(known, o); id != "" {
					res.KnownHits[id]++
					if res.KnownFirst[id] == nil {
						res.KnownFirst[id] = v
					}
					continue
				}
				res.Violation = v
				finish(3)
			}
		}
		finish(0)

	case "replay", "shrink":
		b, err := os.ReadFile(a.File)
		if err != nil {
			fmt.Fprintln(os.Stderr, "worker:", err)
			os.Exit(2)
		}
		var v Violation
		if err := json.Unmarshal(b, &v); err != nil {
			fmt.Fprintln(os.Stderr, "worker: bad replay file:", err)
			os.Exit(2)
		}
		cfg.Tier = v.Tier
		if a.Mode == "replay" {
			cfg.Pin = v.Pin
			curIdxA.Store(v.Run)
			a.Seed = v.Seed
			announce(v.Run)
			ch := ReplayChoices(v.Trace)
			if v.Extra != nil && v.Extra["regen"] == "1" {
				ch = NewChoices(v.Seed, v.Run)
			}
			if a.TraceOut != "" {
				const sinkSize = 8 * (defaultDrawLimit + 2)
				if f, err := os.OpenFile(a.TraceOut, os.O_CREATE|os.O_RDWR|os.O_TRUNC, 0o644); err == nil {
					if f.Truncate(sinkSize) == nil {
						if mm, err := syscall.Mmap(int(f.Fd()), 0, sinkSize, syscall.PROT_READ|syscall.PROT_WRITE, syscall.MAP_SHARED); err == nil {
							ch.Sink = mm
						}
					}
				}
			}
			ch.Keep = true
			// the earlier runs of the process the violation was found in (results ignored)
			for _, idx := range v.Prelude {
				beat.Add(1)
				if e.GCPerRun {
					runtime.GC()
				}
				runOnce(t, e, NewChoices(v.Seed, idx), &RunCfg{Prop: a.Prop, Tier: v.Tier})
			}
			if e.GCPerRun && len(v.Prelude) > 0 {
				runtime.GC()
			}
			o := runOnce(t, e, ch, cfg)
			res.Outcome = o
			res.Runs = 1
			if o.Class != "" {
				res.Violation = &Violation{Property: a.Prop, Class: o.Class, Key: o.Key, Detail: o.Detail, Seed: v.Seed, Run: v.Run, Tier: v.Tier,
					Pin: v.Pin, Extra: o.Extra, Trace: ch.Trace, Labels: ch.Labels, Fp: o.Fingerprint, Prelude: v.Prelude}
				finish(3)
			}
			finish(0)
		}
		// in-process shrink (classes that do not kill the process)
		budget := a.Budget
		if budget <= 0 {
			budget = 2000
		}
		var last *Outcome
		// metric oracles: shrink with doubled thresholds when the original exceeds them too, so that
		// the minimised case is not borderline; otherwise keep the original trace unshrunk
		{
			scfg := *cfg
			scfg.Strict = true
			scfg.Pin = v.Pin
			if o := runOnce(t, e, ReplayChoices(v.Trace), &scfg); o.Class == v.Class {
				cfg.Strict = true
			} else if strings.HasSuffix(v.Class, "/alloc") || strings.HasSuffix(v.Class, "/runaway") || strings.HasSuffix(v.Class, "/no-progress") || strings.HasSuffix(v.Class, "/leak") {
				budget = 1
			}
		}
		shrinkDeadline := time.Now().Add(40 * time.Second)
		test := func(tr []uint64) (string, []uint64) {
			beat.Add(1)
			if time.Now().After(shrinkDeadline) {
				return "", nil // out of shrinking time: keep what we have
			}
			ch := ReplayChoices(tr)
			o := runOnce(t, e, ch, cfg) // no pin: any fault of the enumeration may witness the class
			if o.Class == v.Class {
				last = o
			}
			return o.Class, ch.Trace
		}
		small, calls := Shrink(v.Trace, v.Class, budget, test)
		// final run for the details of the minimised case (normal thresholds)
		cfg.Strict = false
		ch := ReplayChoices(small)
		ch.Keep = true
		o := runOnce(t, e, ch, cfg)
		if o.Class != v.Class {
			// the shrinker only keeps candidates that reproduce; fall back to the original
			ch = ReplayChoices(v.Trace)
			ch.Keep = true
			o = runOnce(t, e, ch, cfg)
			small = ch.Trace
		}
		_ = last
		nv := &Violation{Property: a.Prop, Class: o.Class, Key: o.Key, Detail: o.Detail, Seed: v.Seed, Run: v.Run, Tier: v.Tier,
			Extra: o.Extra, Trace: small, Labels: ch.Labels, Shrunk: true, Calls: calls, Fp: o.Fingerprint}
		if o.Extra != nil {
			nv.Pin = o.Extra["pin"]
		}
		res.Violation = nv
		res.Outcome = o
		if o.Class == "" {
			finish(0)
		}
		finish(3)
	default:
		fmt.Fprintln(os.Stderr, "worker: unknown mode", a.Mode)
		os.Exit(2)
	}
}
