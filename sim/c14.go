package sim

// C14 — hostile or damaged input makes the decoder return, never crash or run away.
//
// System: a real encoder produces a valid stream; a faulty transport damages it per a fault plan
// (peer crash = cut after k bytes, reset, flipped / dropped / duplicated / swapped / inserted bytes,
// noise); a real decoder reads it through every documented entry point with a drawn type map.
// Simulated time = library statements executed. Cuts and resets are enumerated for every offset.

import (
	"bufio"
	"bytes"
	"fmt"
	"io"
	"os"
	"reflect"
	"runtime"
	"runtime/metrics"
	"sort"
	"strings"
	"time"

	hessian "github.com/vogo/gohessian"
)

func init() { register(&Engine{Name: "C14", Run: runC14}) }

const (
	c14ToObject = iota
	c14DecoderDecode
	c14ReadFrom
	c14StreamBufio
	c14StreamDirect
	c14SerToObject
	c14SerReadFromRead
	nC14Entry
)

var c14EntryNames = []string{"ToObject", "Decoder.Decode", "Decoder.ReadFrom(direct reader)", "Decoder.ReadObject xK (bufio)",
	"Decoder.ReadObject xK (direct reader)", "Serializer.ToObject", "Serializer.ReadFrom+Read xK"}

func c14Domain() Domain {
	return Domain{Untyped: true, LooseDyn: true, EmptyStringElems: true, NilPtrElems: true, ZeroTimeElems: true, BigStrings: true, BigBinaries: true,
		FarDates: true, AllDoubles: true, OddMaps: true, MaxListLen: 10, MaxMapLen: 4}
}

// ---- calibration of the time and memory budgets on undamaged streams ---------------------------

type c14Calib struct {
	done       bool
	stepRatio  float64 // max over undamaged decodes of steps / (n + 64)
	allocRatio float64 // max over undamaged decodes of allocated bytes / (n + 64)
	streams    int
}

var c14cal c14Calib

// c14ZeroEvery is the (0, nil) cadence of the transport's reader for the current run (0 = never).
var c14ZeroEvery int

const (
	c14StepCeil  = 20000.0  // ceiling of the calibrated step budget per byte (after the multiplier)
	c14AllocCeil = 100000.0 // ceiling of the calibrated allocation budget per byte (after the multiplier)
	// Headroom over the densest undamaged stream. 10x proved too tight: a damaged stream can turn a long
	// string into thousands of one-byte values (each an object instance or an empty typed list) and
	// legitimately cost ~10x more per byte than any encoder-produced stream. Real run-aways (endless
	// loops, loops to a declared count, exponential walks) exceed any linear budget by orders of magnitude.
	c14StepMult  = 100.0
	c14AllocMult = 30.0
	c14AllocBase = 1 << 20
)

var allocSample = []metrics.Sample{{Name: "/gc/heap/allocs:bytes"}}

var stackSample = []metrics.Sample{{Name: "/memory/classes/heap/stacks:bytes"}}

// stackBytes: memory in goroutine stacks. A stack that has grown stays grown until a later collection
// shrinks it, so the difference around a call (made on a fresh goroutine) is the stack the call needed.
func stackBytes() uint64 {
	metrics.Read(stackSample)
	return stackSample[0].Value.Uint64()
}

func heapAllocs() uint64 {
	metrics.Read(allocSample)
	return allocSample[0].Value.Uint64()
}

// c14Calibrate decodes a fixed set of undamaged streams (own PRNG stream, independent of the run)
// through the one-shot entry point and records the largest cost ratios.
func c14Calibrate() {
	if c14cal.done {
		return
	}
	c14cal.done = true
	for i := int64(0); i < 400; i++ {
		ch := NewChoices(0x5eedca11b, i)
		setMapOrder(0)
		g := NewGen(ch, c14Domain())
		n := ch.Range(1, 4, "n")
		var buf bytes.Buffer
		enc := hessian.NewEncoder(&buf, ZooNameMap)
		ok := true
		for j := 0; j < n && ok; j++ {
			func() {
				defer func() {
					if recover() != nil {
						ok = false
					}
				}()
				if enc.WriteObject(g.Value()) != nil {
					ok = false
				}
			}()
		}
		if !ok || buf.Len() == 0 {
			continue
		}
		data := buf.Bytes()
		func() {
			defer func() { recover() }()
			resetClock(0)
			a0 := heapAllocs()
			d := hessian.NewDecoder(bufio.NewReader(bytes.NewReader(data)), ZooTypeMap)
			for j := 0; j < n; j++ {
				d.ReadObject()
			}
			a1 := heapAllocs()
			den := float64(len(data) + 64)
			if r := float64(clock.steps) / den; r > c14cal.stepRatio {
				c14cal.stepRatio = r
			}
			if r := float64(a1-a0) / den; r > c14cal.allocRatio {
				c14cal.allocRatio = r
			}
			c14cal.streams++
		}()
	}
	if c14cal.stepRatio < 1 {
		c14cal.stepRatio = 1
	}
	if c14cal.allocRatio < 16 {
		c14cal.allocRatio = 16
	}
}

func c14StepBudget(n int) uint64 {
	b := c14StepMult * c14cal.stepRatio
	if b > c14StepCeil {
		b = c14StepCeil
	}
	return uint64(b * float64(n+64))
}

func c14AllocBudget(n int) uint64 {
	b := c14AllocMult * c14cal.allocRatio
	if b > c14AllocCeil {
		b = c14AllocCeil
	}
	return c14AllocBase + uint64(b*float64(n+64))
}

// ---- type map configurations -------------------------------------------------------------------

// c14ExtraTypes: container-of-container types a caller may register by hand (the zoo's own maps do not hold
// them: they are outside the round-trip domain, but a decoder must survive hostile input for them too).
// Struct types with an embedding cycle through pointers (legal Go; a walk over embedded types needs a
// visited set).
type SelfEmb struct {
	*SelfEmb
	Val int32
}
type CycA struct {
	*CycB
	A int32
}
type CycB struct {
	*CycA
	B int32
}

var c14ExtraTypes = map[string]reflect.Type{
	"SelfEmb":  reflect.TypeOf(SelfEmb{}),
	"CycA":     reflect.TypeOf(CycA{}),
	"[[int32":  reflect.TypeOf([][]int32(nil)),
	"[[string": reflect.TypeOf([][]string(nil)),
	"[[K00":    reflect.TypeOf([][]*K00(nil)),
	"[map":     reflect.TypeOf([]map[string]int32(nil)),
	"mapOfL":   reflect.TypeOf(map[string][]int32(nil)),
}

func c14ExtraNames() []string {
	names := make([]string, 0, len(c14ExtraTypes))
	for k := range c14ExtraTypes {
		names = append(names, k)
	}
	sort.Strings(names)
	return names
}

func c14TypeMap(ch *Choices) (map[string]reflect.Type, string) {
	tm, name := typeMapVariant(ch, ch.Pick([]int{50, 15, 20, 15}, "tm.kind"))
	if ch.Intn(2, "tm.extra") == 1 {
		for _, k := range c14ExtraNames() {
			tm[k] = c14ExtraTypes[k]
		}
		name += " + nested container types"
	}
	return tm, name
}

// typeMapVariant: 0 complete, 1 empty, 2 partial, 3 shuffled (names bound to other / odd types).
func typeMapVariant(ch *Choices, kind int) (map[string]reflect.Type, string) {
	switch kind {
	case 0:
		cp := make(map[string]reflect.Type, len(ZooTypeMap))
		for k, v := range ZooTypeMap {
			cp[k] = v
		}
		return cp, "complete"
	case 1:
		return map[string]reflect.Type{}, "empty"
	case 2:
		keys := sortedTypeKeys()
		cp := map[string]reflect.Type{}
		salt := ch.Salt("tm.salt")
		for _, k := range keys {
			if mix64(hashString(k)^salt)%3 != 0 {
				cp[k] = ZooTypeMap[k]
			}
		}
		return cp, "partial"
	default:
		keys := sortedTypeKeys()
		cp := map[string]reflect.Type{}
		salt := ch.Salt("tm.salt")
		pool := make([]reflect.Type, 0, len(keys)+6)
		for _, k := range keys {
			pool = append(pool, ZooTypeMap[k])
		}
		pool = append(pool, reflect.TypeOf(int32(0)), reflect.TypeOf(""), reflect.TypeOf([]string{}), reflect.TypeOf(map[string]string{}),
			reflect.TypeOf(&Node{}), reflect.TypeOf(true),
			// registrations a caller can make by mistake: a nil type, an interface type, pointer to pointer,
			// an array, a func
			nil, reflect.TypeOf((*interface{})(nil)).Elem(), reflect.PtrTo(reflect.TypeOf(&K00{})), reflect.TypeOf([3]int32{}),
			reflect.TypeOf(func() {}), reflect.TypeOf(map[interface{}]interface{}{}), reflect.TypeOf([]interface{}{}))
		for _, k := range keys {
			if mix64(hashString(k)^salt)%2 == 0 {
				cp[k] = pool[mix64(hashString(k)+salt)%uint64(len(pool))]
			} else {
				cp[k] = ZooTypeMap[k]
			}
		}
		return cp, "shuffled"
	}
}

func sortedTypeKeys() []string {
	keys := make([]string, 0, len(ZooTypeMap))
	for k := range ZooTypeMap {
		keys = append(keys, k)
	}
	sort.Strings(keys)
	return keys
}

// ---- one damaged decode ------------------------------------------------------------------------

type c14Result struct {
	class, key, detail string
	steps              uint64
	alloc              uint64
	stack              uint64
	readsAfter         int
	errs               int
	values             int
	allocNoise         bool
}

// innermostLibFrame returns the innermost gohessian function on the current (panicking) stack.
func innermostLibFrame() string {
	pcs := make([]uintptr, 64)
	n := runtime.Callers(3, pcs)
	frames := runtime.CallersFrames(pcs[:n])
	for {
		fr, more := frames.Next()
		if strings.HasPrefix(fr.Function, hessianPkg+".") && !strings.Contains(fr.Function, "_vfStep") {
			f := strings.TrimPrefix(fr.Function, hessianPkg+".")
			f = strings.NewReplacer("(*", "", ")", "").Replace(f)
			return fmt.Sprintf("%s", f)
		}
		if !more {
			break
		}
	}
	return "outside-library"
}

// c14Decode measures one decode; an allocation verdict is only kept when a second, warm measurement of
// the same decode exceeds the budget too (first-use caches of reflect / fmt are process noise).
func c14Decode(entry int, data []byte, tail error, tm map[string]reflect.Type, nvals int, bufSize int, strict bool) (res c14Result) {
	res = c14DecodeOnce(entry, data, tail, tm, nvals, bufSize, strict)
	if res.class == "c14/alloc" {
		again := c14DecodeOnce(entry, data, tail, tm, nvals, bufSize, strict)
		if again.class != "c14/alloc" {
			again.allocNoise = true
			return again
		}
		if again.alloc < res.alloc {
			return again
		}
	}
	return res
}

func c14DecodeOnce(entry int, data []byte, tail error, tm map[string]reflect.Type, nvals int, bufSize int, strict bool) (res c14Result) {
	budget := c14StepBudget(len(data))
	if strict {
		budget *= 2
	}
	resetClock(budget)
	K := nvals + 2
	a0 := heapAllocs()
	var rd *SimReader
	// guard runs library code; a panic that escapes it is the verdict (constructors included: the one-shot
	// entry points construct their decoder inside the call, so a constructor that panics on a legal
	// type map is an entry point that crashes)
	guard := func(f func()) (stop bool) {
		defer func() {
			if r := recover(); r != nil {
				if _, ok := r.(budgetSentinel); ok {
					stop = true
					return
				}
				if b, ok := r.(blockedSentinel); ok {
					res.class = "c14/blocked"
					res.key = siteFunc(b.site)
					res.detail = fmt.Sprintf("the decoder waits for a lock that is never released (taken at or before %s and left locked by an earlier call in this process - e.g. one that ended in a recovered panic); with a single caller nobody can release it: the call would never return", siteString(b.site))
					stop = true
					return
				}
				res.class = "c14/panic"
				res.key = innermostLibFrame()
				res.detail = fmt.Sprintf("panic: %v", r)
				stop = true
			}
		}()
		f()
		return false
	}
	call := func(f func() (interface{}, error)) (stop bool) {
		return guard(func() {
			v, err := f()
			if err != nil {
				res.errs++
			} else {
				res.values++
			}
			_ = v
		})
	}
	// the decode runs on a goroutine of its own: its stack starts small, so the growth of the memory in
	// goroutine stacks around it is the stack this decode needed (recursion depth x frame size)
	var stackGrowth uint64
	decodeDone := make(chan struct{})
	go func() {
		defer close(decodeDone)
		s0 := stackBytes()
		defer func() {
			if s1 := stackBytes(); s1 > s0 {
				stackGrowth = s1 - s0
			}
		}()
		switch entry {
		case c14ToObject:
			call(func() (interface{}, error) { return hessian.ToObject(data, tm) })
		case c14DecoderDecode:
			var d *hessian.Decoder
			if !guard(func() { d = hessian.NewDecoder(nil, tm) }) {
				call(func() (interface{}, error) { return d.Decode(data) })
			}
		case c14ReadFrom:
			var d *hessian.Decoder
			rd = NewSimReader(data, tail)
			rd.ZeroEvery = c14ZeroEvery
			if !guard(func() { d = hessian.NewDecoder(nil, tm) }) {
				call(func() (interface{}, error) { return d.ReadFrom(rd) })
			}
		case c14StreamBufio:
			rd = NewSimReader(data, tail)
			rd.ZeroEvery = c14ZeroEvery
			var d *hessian.Decoder
			if !guard(func() { d = hessian.NewDecoder(bufio.NewReaderSize(rd, bufSize), tm) }) {
				for i := 0; i < K; i++ {
					if call(d.ReadObject) {
						break
					}
				}
			}
		case c14StreamDirect:
			rd = NewSimReader(data, tail)
			rd.ZeroEvery = c14ZeroEvery
			var d *hessian.Decoder
			if !guard(func() { d = hessian.NewDecoder(rd, tm) }) {
				for i := 0; i < K; i++ {
					if call(d.ReadObject) {
						break
					}
				}
			}
		case c14SerToObject:
			var s hessian.Serializer
			if !guard(func() { s = hessian.NewSerializer(tm, nil) }) {
				call(func() (interface{}, error) { return s.ToObject(data) })
			}
		case c14SerReadFromRead:
			var s hessian.Serializer
			rd = NewSimReader(data, tail)
			rd.ZeroEvery = c14ZeroEvery
			if !guard(func() { s = hessian.NewSerializer(tm, nil) }) && !call(func() (interface{}, error) { return s.ReadFrom(rd) }) {
				for i := 1; i < K; i++ {
					if call(s.Read) {
						break
					}
				}
			}
		}
	}()
	<-decodeDone
	a1 := heapAllocs()
	res.steps = clock.steps
	res.alloc = a1 - a0 + stackGrowth
	res.stack = stackGrowth
	if rd != nil {
		res.readsAfter = rd.ReadsAfter
	}
	if clock.blocked && (res.class == "" || res.class == "c14/panic") {
		res.class = "c14/blocked"
		res.key = siteFunc(clock.blockedSite)
		res.detail = fmt.Sprintf("the decoder waits for a lock that is never released (at %s; left locked by an earlier call in this process, e.g. one that ended in a recovered panic); with a single caller nobody can release it: the call would never return", siteString(clock.blockedSite))
	}
	if clock.exceeded && res.class == "" {
		site := clock.exSite
		res.class = "c14/runaway"
		res.key = siteFunc(site)
		res.detail = fmt.Sprintf("more than %d library statements executed for %d input bytes (budget = 100 x the largest ratio on undamaged streams, %.1f steps/byte); last statement at %s",
			budget, len(data), c14cal.stepRatio, siteString(site))
	}
	ab := c14AllocBudget(len(data))
	if strict {
		ab *= 2
	}
	if res.alloc > ab && res.class == "" {
		res.class = "c14/alloc"
		res.key = "heap"
		res.detail = fmt.Sprintf("%d bytes allocated (of which %d bytes of goroutine stack) while decoding %d input bytes (budget %d = 1 MiB + 30 x the largest ratio on undamaged streams, %.0f B/byte)",
			res.alloc, res.stack, len(data), ab, c14cal.allocRatio)
	}
	hessian.VfStep = clockStep
	return res
}

var c14Tags = []byte{'Z', 'N', 'C', 'O', 'H', 'M', 'V', 0x55, 0x57, 0x58, 0x51, 'I', 'L', 'D', 'S', 'R', 'B', 'b', 'T', 'F', 0x4a, 0x4b, 0x59,
	0x60, 0x61, 0x62, 0x6f, 0x70, 0x77, 0x78, 0x7f, 0x00, 0x1f, 0x20, 0x2f, 0x30, 0x33, 0x34, 0x3f, 0x5b, 0x5f, 0x80, 0x90, 0xbf, 0xc8, 0xd4, 0xd7, 0xe0, 0xf0, 0xff}

func c14DrawPlan(ch *Choices, n int, starts []int) []TFault {
	pos := func() int {
		if n == 0 {
			return 0
		}
		switch ch.Pick([]int{50, 25, 25}, "plan.pos") {
		case 0:
			if len(starts) > 0 {
				return starts[ch.Intn(len(starts), "plan.start")]
			}
		case 1:
			if len(starts) > 0 {
				p := starts[ch.Intn(len(starts), "plan.start")] + 1 + ch.Intn(2, "plan.plus")
				if p < n {
					return p
				}
			}
		}
		return ch.Intn(n, "plan.any")
	}
	k := ch.Range(1, 3, "plan.n")
	plan := make([]TFault, 0, k)
	for i := 0; i < k; i++ {
		kind := TFaultKind(ch.Pick([]int{10, 5, 25, 25, 10, 10, 5, 8, 2}, "plan.kind"))
		f := TFault{Kind: kind, Off: pos()}
		switch kind {
		case TFlip:
			if ch.Intn(2, "flip.single") == 0 {
				f.Mask = 1 << uint(ch.Intn(8, "flip.bit"))
			} else {
				f.Mask = byte(1 + ch.Intn(255, "flip.mask"))
			}
		case TSet:
			f.Mask = c14Tags[ch.Intn(len(c14Tags), "set.tag")]
		case TDrop, TDup, TSwap:
			f.Len = ch.Range(1, 8, "plan.len")
		case TInsert:
			m := ch.Range(1, 4, "ins.n")
			for j := 0; j < m; j++ {
				f.Bytes = append(f.Bytes, c14Tags[ch.Intn(len(c14Tags), "ins.tag")])
			}
		case TNoise:
			m := ch.Range(1, 40, "noise.n")
			for j := 0; j < m; j++ {
				f.Bytes = append(f.Bytes, byte(ch.Intn(256, "noise.b")))
			}
		}
		plan = append(plan, f)
	}
	return plan
}

// c14Leak: many DISTINCT messages through one entry point; what stays reachable afterwards must not grow
// with the total input ever decoded (a cache keyed by input-derived data would).
func c14Leak(ch *Choices, cfg *RunCfg, o *Outcome) {
	entry := ch.Intn(nC14Entry, "entry")
	M := ch.Range(100, 300, "leak.msgs")
	nameLen := []int{40, 2000, 30000, 60000}[ch.Intn(4, "leak.namelen")]
	tm, _ := copyMaps()
	var total int
	live := func() uint64 {
		runtime.GC()
		var ms runtime.MemStats
		runtime.ReadMemStats(&ms)
		return ms.HeapAlloc
	}
	resetClock(0)
	// warm up (first-use caches), then measure
	c14DecodeOnce(entry, evolvedObjectBigNames(ch, -1, 40), nil, tm, 1, 64, false)
	before := live()
	for i := 0; i < M; i++ {
		var data []byte
		if ch.Intn(4, "leak.kind") == 0 {
			data, _, _ = foreignStream(ch, false)
		} else {
			data = evolvedObjectBigNames(ch, i, nameLen)
		}
		total += len(data)
		r := c14DecodeOnce(entry, data, nil, tm, 1, 64, false)
		o.Evals++
		o.Steps += r.steps
		if r.class != "" && r.class != "c14/alloc" {
			o.fail(r.class, r.key, "%s (leak batch, message %d of %d): %s", c14EntryNames[entry], i, M, r.detail)
			return
		}
	}
	after := live()
	grow := int64(after) - int64(before)
	limit := int64(2<<20) + int64(total)/8
	if cfg.Strict {
		limit *= 2
	}
	o.Probes["leak batch: 100..300 distinct messages through one entry point"]++
	o.Faults["distinct peer messages decoded in a leak batch"] += M
	o.Nontrivial = true
	fp := NewFingerprint()
	fp.Add(uint64(entry), uint64(M), uint64(nameLen), uint64(total))
	o.Fingerprint = fp.Sum()
	o.Sample = map[string]interface{}{"mode": "leak batch", "entry": c14EntryNames[entry], "messages": M, "unknown_field_name_len": nameLen, "total_bytes": total, "live_heap_growth": grow}
	if grow > limit {
		o.fail("c14/leak", "heap", "%s: after decoding %d distinct messages (%d bytes in total) the live heap (after a forced collection) has grown by %d bytes (limit 2 MiB + total/8 = %d): memory stays reachable in proportion to all input ever decoded, not to the size of one input",
			c14EntryNames[entry], M, total, grow, limit)
	}
}

// runC14 wraps the run with the goroutine oracle: the decoder entry points are synchronous calls, so
// whatever they start must have ended soon after the last of them returned. Goroutines that are still
// alive two seconds later (real time, waited for only when the count is up) were left behind by a decode -
// a leak per call that no per-call budget sees.
func runC14(ch *Choices, cfg *RunCfg) (o *Outcome) {
	g0 := runtime.NumGoroutine()
	o = runC14Body(ch, cfg)
	if runtime.NumGoroutine() > g0 {
		deadline := time.Now().Add(2 * time.Second)
		for runtime.NumGoroutine() > g0 && time.Now().Before(deadline) {
			time.Sleep(5 * time.Millisecond)
		}
		if n := runtime.NumGoroutine() - g0; n > 0 {
			o.fail("c14/leak", "goroutines", "%d goroutine(s) started during the run's decode calls are still alive 2 s after the last call returned: every decode leaves something running behind", n)
		}
	}
	o.Probes["goroutine count compared before / after the run's decode calls"]++
	if os.Getenv("VF_DEBUG_STEPS") != "" { // development aid: where does the simulated time go
		fmt.Fprintf(os.Stderr, "STEPS %d %v\n", o.Steps, o.Sample)
	}
	return o
}

func runC14Body(ch *Choices, cfg *RunCfg) (o *Outcome) {
	o = newOutcome()
	c14Calibrate()
	c14ZeroEvery = 0
	if ch.Intn(25, "mode.leak") == 1 {
		c14Leak(ch, cfg, o)
		return o
	}
	setMapOrder(ch.Salt("mapsalt"))
	var valid []byte
	var starts []int
	var nvals int
	var firstDesc string
	switch ch.Pick([]int{70, 15, 15}, "stream.kind") {
	case 0:
		g := NewGen(ch, c14Domain())
		nvals = ch.Range(1, 4, "nvals")
		vals := make([]interface{}, nvals)
		for i := range vals {
			vals[i] = g.Value()
		}
		firstDesc = describe(vals[0])
		// the sender: a real encoder
		resetClock(0)
		w := &FaultyWriter{}
		encOK := true
		func() {
			defer func() {
				if recover() != nil {
					encOK = false
				}
			}()
			enc := hessian.NewEncoder(w, ZooNameMap)
			for _, v := range vals {
				if enc.WriteObject(v) != nil {
					encOK = false
					return
				}
			}
		}()
		if !encOK {
			o.Skipped = true
			o.Probes["sender could not encode (run skipped)"]++
			return o
		}
		valid = append([]byte(nil), w.Sink.Bytes()...)
		off := 0
		for _, l := range w.Lens {
			starts = append(starts, off)
			off += l
		}
	case 1:
		// a peer that uses the legal encodings the Go encoder never emits
		var feats map[string]int
		valid, nvals, feats = foreignStream(ch, false)
		firstDesc = "foreign (non-canonical but legal) stream"
		for k := range feats {
			o.Probes["valid stream uses: "+k]++
		}
	default:
		// a hostile peer: legal structure built to be expensive
		valid, firstDesc, nvals = hostileStreamN(ch)
		o.Probes["hostile structured stream (DAG / deep nesting / reference fan-in)"]++
	}
	tm, tmName := c14TypeMap(ch)
	entry := ch.Intn(nC14Entry, "entry")
	bufSize := 16 << uint(ch.Intn(6, "bufsize"))
	c14ZeroEvery = []int{0, 0, 0, 2, 3, 7}[ch.Intn(6, "reader.zeroevery")]
	if c14ZeroEvery > 0 {
		o.Probes["transport reader returns (0, nil) on some calls"]++
	}
	fp := NewFingerprint()
	fp.Add(uint64(entry), hashBytes(valid), hashString(tmName))
	o.Fingerprint = fp.Sum()
	o.Sample = map[string]interface{}{"entry": c14EntryNames[entry], "typemap": tmName, "values": nvals, "stream_bytes": len(valid), "first_value": firstDesc}

	pinKind, pinArg := "", 0
	if cfg.Pin != "" {
		fmt.Sscanf(strings.Replace(cfg.Pin, ":", " ", 1), "%s %d", &pinKind, &pinArg)
	}
	report := func(pin string, plan []TFault, data []byte, r c14Result) {
		o.fail(r.class, r.key, "%s, type map %s, %d value(s), valid stream %d bytes, fault plan %v -> %d bytes delivered: %s",
			c14EntryNames[entry], tmName, nvals, len(valid), plan, len(data), r.detail)
		o.Extra = map[string]string{"pin": pin, "valid_stream_hex": clip(fmt.Sprintf("%x", valid), 4000), "delivered_hex": clip(fmt.Sprintf("%x", data), 4000),
			"plan": fmt.Sprint(plan), "typemap": tmName, "entry": c14EntryNames[entry]}
	}
	one := func(pin string, plan []TFault) bool {
		data, tail, fired := ApplyPlan(valid, plan)
		any := false
		for i, f := range fired {
			if f {
				any = true
				o.Faults[plan[i].Kind.String()]++
			}
		}
		r := c14Decode(entry, data, tail, tm, nvals, bufSize, cfg.Strict)
		o.Evals++
		o.Steps += r.steps
		if any {
			o.Nontrivial = true
		}
		if r.errs > 0 {
			o.Probes["damaged stream answered with an error"]++
		}
		if r.allocNoise {
			o.Probes["allocation over budget on the first measurement only (process noise, not reported)"]++
		}
		if r.errs > 1 {
			o.Probes["read after an erroring streaming read returned"]++
		}
		if r.readsAfter > 0 {
			o.Probes["reader asked again after it reported EOF/error (metric only)"] += r.readsAfter
		}
		if r.class != "" {
			report(pin, plan, data, r)
			return true
		}
		return false
	}

	// control: the undamaged stream itself must satisfy the budgets
	if pinKind == "" || pinKind == "control" {
		if one("control:0", nil) {
			o.Class = strings.Replace(o.Class, "c14/", "c14/undamaged-", 1)
			return o
		}
	}
	// every cut and reset offset (peer can die after any byte)
	n := len(valid)
	stride := 1
	limit := 1200
	if cfg.Tier == "thorough" {
		limit = 6000
	}
	perKind := 1_500_000 // bytes decoded per run and fault kind, at most: long streams get strided cut offsets
	if cfg.Tier == "thorough" {
		perKind = 3_000_000
	}
	if n > 0 && limit > perKind/n {
		limit = perKind/n + 20
	}
	if n > limit {
		stride = n/limit + 1
	}
	for _, kind := range []TFaultKind{TCut, TReset, TStall} {
		for k := 0; k < n; k++ {
			if stride > 1 && k > 40 && k < n-40 && k%stride != 0 {
				continue
			}
			if kind == TStall && k%3 != 0 {
				continue // the silent-peer tail at every third offset
			}
			if pinKind != "" && !(pinKind == kind.String() && pinArg == k) {
				continue
			}
			if one(fmt.Sprintf("%s:%d", kind, k), []TFault{{Kind: kind, Off: k}}) {
				return o
			}
		}
	}
	if stride == 1 {
		o.Probes["every cut/reset offset of the stream enumerated"]++
	}
	// drawn structure-aware damage
	nplans := 24
	if cfg.Tier == "thorough" {
		nplans = 64
	}
	if n > 20000 {
		nplans /= 4
	}
	for i := 0; i < nplans; i++ {
		plan := c14DrawPlan(ch, n, starts)
		if pinKind != "" && !(pinKind == "plan" && pinArg == i) {
			continue
		}
		if one(fmt.Sprintf("plan:%d", i), plan) {
			return o
		}
	}
	_ = io.EOF
	return o
}
