//go:build !race

package sim

const raceBuild = false

func raceOff() {}
func raceOn()  {}
