package sim

// C17 — the pool hands each object to one holder at a time and never blocks.
//
// System: one pool (through the three public constructors) and 1..64 client tasks under the
// seeded scheduler with statement-level preemption inside Get and Return; faults: stalled
// holders, abandoning holders, bursts of Returns on a full pool and of Gets on an empty one.

import (
	"fmt"
	"reflect"
	"runtime"
	"sort"
	"strings"
	"testing/synctest"
	"time"

	"github.com/anishathalye/porcupine"
	hessian "github.com/vogo/gohessian"
)

func init() { register(&Engine{Name: "C17", Run: runC17, Bubble: true}) }

const (
	evGetInv = "get.inv"
	evGetRet = "get.ret"
	evRetInv = "ret.inv"
	evRetRet = "ret.ret"
	evBad    = "bad"
)

type c17Op struct {
	kind byte // 'G' get, 'U' use, 'R' return, 'S' idle period (simulated time passes)
	arg  int
	pool int // 'G': which pool of the run (0 = the main pool, 1 = its sibling over the same maps)
}

// idle periods of a caller, in simulated time (index 0 unused). All are below the scheduler's one-hour
// block-detection timer.
var c17Idle = []time.Duration{0, time.Millisecond, time.Second, 9 * time.Second, 11 * time.Second, time.Minute, 10 * time.Minute, 45 * time.Minute}

type poolIn struct {
	get bool
	obj uintptr
}

type poolState struct {
	idle string // sorted, comma separated object ids
	seen string
	n    int
}

func setAdd(s string, o uintptr) string {
	parts := setParts(s)
	parts = append(parts, fmt.Sprint(o))
	sort.Strings(parts)
	return strings.Join(parts, ",")
}

func setDel(s string, o uintptr) string {
	parts := setParts(s)
	out := parts[:0]
	x := fmt.Sprint(o)
	for _, p := range parts {
		if p != x {
			out = append(out, p)
		}
	}
	return strings.Join(out, ",")
}

func setHas(s string, o uintptr) bool {
	x := fmt.Sprint(o)
	for _, p := range setParts(s) {
		if p == x {
			return true
		}
	}
	return false
}

func setParts(s string) []string {
	if s == "" {
		return nil
	}
	return strings.Split(s, ",")
}

// poolModel: state = (set of idle objects R with |R| <= size, set of objects ever seen).
// Return(o) -> R (dropped: always allowed, the statement says "or dropped") or R+{o} if |R| < size.
// Get -> o   legal iff o in R (then removed) or o never seen before (fresh; R unchanged).
func poolModel(size int) porcupine.NondeterministicModel {
	return porcupine.NondeterministicModel{
		Init: func() []interface{} { return []interface{}{poolState{}} },
		Step: func(st interface{}, in interface{}, out interface{}) []interface{} {
			s := st.(poolState)
			i := in.(poolIn)
			if i.get {
				o := out.(uintptr)
				if setHas(s.idle, o) {
					return []interface{}{poolState{idle: setDel(s.idle, o), seen: s.seen, n: s.n - 1}}
				}
				if !setHas(s.seen, o) {
					return []interface{}{poolState{idle: s.idle, seen: setAdd(s.seen, o), n: s.n}}
				}
				return nil
			}
			seen := s.seen
			if !setHas(seen, i.obj) {
				seen = setAdd(seen, i.obj)
			}
			res := []interface{}{poolState{idle: s.idle, seen: seen, n: s.n}}
			if s.n < size && !setHas(s.idle, i.obj) {
				res = append(res, poolState{idle: setAdd(s.idle, i.obj), seen: seen, n: s.n + 1})
			}
			return res
		},
		Equal: func(a, b interface{}) bool { return a.(poolState) == b.(poolState) },
	}
}

type c17Shared struct {
	kind      int // 0 serializer, 1 encoder, 2 decoder
	input     interface{}
	expBytes  []byte
	expCanon  string
	expDecErr string // the (masked) error a decode of expBytes returns when run alone ("" = it succeeds)
}

func objID(o interface{}) uintptr {
	if o == nil {
		return 0
	}
	v := reflect.ValueOf(o)
	switch v.Kind() {
	case reflect.Ptr, reflect.Map, reflect.Chan, reflect.Func, reflect.UnsafePointer:
		return v.Pointer()
	}
	return 0
}

// c17Use does a real round trip with the pooled object; returns "" or a description of what is wrong.
func c17Use(sh *c17Shared, o interface{}) string {
	switch sh.kind {
	case 0:
		s, ok := o.(hessian.Serializer)
		if !ok || s == nil {
			return fmt.Sprintf("object of type %T is not a Serializer", o)
		}
		b, err := s.ToBytes(sh.input)
		if err != nil {
			return "ToBytes: " + err.Error()
		}
		if string(b) != string(sh.expBytes) {
			return "ToBytes returned different bytes than when run alone"
		}
		v, err := s.ToObject(b)
		if sh.expDecErr != "" {
			if maskErr(err) != sh.expDecErr {
				return fmt.Sprintf("ToObject returned %v, alone it returns the error %s", err, sh.expDecErr)
			}
			return ""
		}
		if err != nil {
			return "ToObject: " + err.Error()
		}
		if c, _ := Canon(v, CanonOpts{}); c != sh.expCanon {
			return "ToObject returned a different value than when run alone"
		}
	case 1:
		e, ok := o.(*hessian.Encoder)
		if !ok || e == nil {
			return fmt.Sprintf("object of type %T is not an *Encoder", o)
		}
		b, err := e.Encode(sh.input)
		if err != nil {
			return "Encode: " + err.Error()
		}
		if string(b) != string(sh.expBytes) {
			return "Encode returned different bytes than when run alone"
		}
	case 2:
		d, ok := o.(*hessian.Decoder)
		if !ok || d == nil {
			return fmt.Sprintf("object of type %T is not a *Decoder", o)
		}
		v, err := d.Decode(sh.expBytes)
		if sh.expDecErr != "" {
			if maskErr(err) != sh.expDecErr {
				return fmt.Sprintf("Decode returned %v, alone it returns the error %s", err, sh.expDecErr)
			}
			return ""
		}
		if err != nil {
			return "Decode: " + err.Error()
		}
		if c, _ := Canon(v, CanonOpts{}); c != sh.expCanon {
			return "Decode returned a different value than when run alone"
		}
	}
	return ""
}

// c17NilMaps: the run's pools are constructed without maps (legal: every pooled object then works on maps
// of its own, created by the library).
var c17NilMaps bool

func c17NewPool(kind, size int) hessian.Pool {
	tm, nm := ZooTypeMap, ZooNameMap
	if c17NilMaps {
		tm, nm = nil, nil
	}
	switch kind {
	case 0:
		return hessian.NewSerializerPool(size, tm, nm)
	case 1:
		return hessian.NewEncoderPool(size, nm)
	default:
		return hessian.NewDecoderPool(size, tm)
	}
}

var c17KindNames = []string{"NewSerializerPool", "NewEncoderPool", "NewDecoderPool"}

func runC17(ch *Choices, cfg *RunCfg) (o *Outcome) {
	g0 := runtime.NumGoroutine()
	o = newOutcome()
	setMapOrder(0)
	kind := ch.Intn(3, "pool.kind")
	size := ch.Pick([]int{15, 25, 20, 10, 10, 5, 5, 5, 5}, "pool.size")
	var ntasks int
	switch ch.Pick([]int{50, 35, 10, 5}, "ntasks.kind") {
	case 0:
		ntasks = ch.Range(2, 4, "ntasks")
	case 1:
		ntasks = ch.Range(1, 8, "ntasks")
	case 2:
		ntasks = ch.Range(8, 24, "ntasks")
	default:
		ntasks = ch.Range(32, 64, "ntasks")
	}
	policy := ch.Pick([]int{60, 15, 25}, "policy")
	meanQ := []int{1, 3, 10, 100}[ch.Intn(4, "meanq")]
	useReal := ch.Intn(3, "use") != 0

	// shared read-only input and its solo results
	sh := &c17Shared{kind: kind}
	n := &Node{Id: 7, Name: "pooled", Tags: []string{"a", "b"}, Attr: map[string]string{"k": "v"}, Nums: []int32{1, 2, 3}}
	n.Next = n
	sh.input = n
	c17NilMaps = ch.Intn(5, "pool.nilmaps") == 1
	{
		tm, nm := ZooTypeMap, ZooNameMap
		if c17NilMaps {
			tm, nm = nil, nil
			o.Probes["pools constructed without maps (nil)"]++
		}
		b, err := hessian.ToBytes(sh.input, nm)
		if err != nil {
			o.Skipped = true
			return o
		}
		sh.expBytes = b
		v, err := hessian.ToObject(b, tm)
		if err != nil {
			// without a type map the classes are unknown: decoding alone fails, and so must a pooled decoder
			sh.expDecErr = maskErr(err)
		} else {
			sh.expCanon, _ = Canon(v, CanonOpts{})
		}
	}
	// solo baseline of the caller's own work per call (statements), on a scratch pool
	var baseGet, baseRet uint64
	basePanic := ""
	func() {
		defer func() {
			if r := recover(); r != nil {
				basePanic = fmt.Sprint(r)
			}
		}()
		resetClock(0)
		p := c17NewPool(kind, size)
		var objs []interface{}
		for i := 0; i < size+2; i++ {
			before := clock.steps
			objs = append(objs, p.Get())
			if d := clock.steps - before; d > baseGet {
				baseGet = d
			}
		}
		for _, x := range objs {
			before := clock.steps
			p.Return(x)
			if d := clock.steps - before; d > baseRet {
				baseRet = d
			}
		}
		for i := 0; i < size+1; i++ {
			before := clock.steps
			p.Get()
			if d := clock.steps - before; d > baseGet {
				baseGet = d
			}
		}
	}()
	if basePanic != "" {
		return o.fail("c17/panic", "solo", "%s(size %d): a single caller's plain sequence (%d Gets, as many Returns, %d Gets) panicked: %s", c17KindNames[kind], size, size+2, size+1, basePanic)
	}
	limGet, limRet := 10*baseGet+100, 10*baseRet+100
	if cfg.Strict {
		limGet, limRet = 2*limGet, 2*limRet
	}

	// one run in four has a sibling: a second pool of the same kind over the same maps, with its own size.
	// Pools are independent objects: what is returned to one must never come out of the other, and each
	// keeps at most its own size.
	sizes := []int{size}
	sibFirst := false
	if ch.Intn(4, "sibling") == 1 {
		sizes = append(sizes, ch.Pick([]int{25, 25, 20, 10, 10, 5, 5}, "sibling.size"))
		sibFirst = ch.Intn(2, "sibling.first") == 1
	}
	pools := make([]hessian.Pool, len(sizes))
	if sibFirst {
		pools[1] = c17NewPool(kind, sizes[1])
	}
	pools[0] = c17NewPool(kind, size)
	if len(sizes) > 1 && !sibFirst {
		pools[1] = c17NewPool(kind, sizes[1])
	}
	if runtime.NumGoroutine() > g0 {
		synctest.Wait()
		if n := runtime.NumGoroutine() - g0; n > 0 {
			// tolerated: they run outside the scheduler (see Sched.stepHook)
			o.Probes["pool construction started goroutines of the library's own"] += n
		}
	}
	faultsOn := ch.Intn(3, "faults.on") == 1
	abandonP, abandons := 0, 0
	if faultsOn {
		abandonP = ch.Intn(40, "abandonp")
	}
	// the clock: in a third of the runs callers have idle periods, i.e. simulated time jumps between
	// operations (the bubble's fake clock; the pool may keep time stamps, expire or refresh objects)
	clockOn := ch.Intn(3, "clock.on") == 1
	idles := 0 // idle periods scripted (counted here, by the generating goroutine)
	// scripts
	scripts := make([][]c17Op, ntasks)
	total := 0
	maxOps := 44
	for t := 0; t < ntasks; t++ {
		held := 0
		nops := ch.Range(1, 8, "script.len")
		for i := 0; i < nops && total < maxOps; i++ {
			if clockOn && ch.Intn(4, "idle?") == 1 {
				// simulated time passes before the next operation (an idle period of the caller)
				scripts[t] = append(scripts[t], c17Op{kind: 'S', arg: 1 + ch.Intn(len(c17Idle)-1, "idle.len")})
				idles++
			}
			var k int
			if held == 0 {
				k = 0
			} else {
				k = ch.Pick([]int{30, 30, 40}, "op.kind")
			}
			switch k {
			case 0:
				if held >= 4 {
					continue
				}
				g := c17Op{kind: 'G'}
				if len(pools) > 1 {
					g.pool = ch.Intn(2, "op.pool")
				}
				scripts[t] = append(scripts[t], g)
				held++
				total++
			case 1:
				scripts[t] = append(scripts[t], c17Op{kind: 'U', arg: ch.Intn(held, "op.which")})
			case 2:
				scripts[t] = append(scripts[t], c17Op{kind: 'R', arg: ch.Intn(held, "op.which")})
				held--
				total++
			}
		}
		// give everything back at the end - unless this holder abandons its objects (never returns them)
		if abandonP > 0 && held > 0 && ch.Intn(100, "abandon?") < abandonP {
			abandons++
			continue
		}
		for ; held > 0 && total < maxOps+8; held-- {
			scripts[t] = append(scripts[t], c17Op{kind: 'R'})
			total++
		}
	}

	s := NewSched(ch, []int{polRandom, polRoundRobin, polPCT}[policy], meanQ)
	if faultsOn {
		s.StallP = ch.Intn(60, "stallp")
	}
	// harness state owned by the scheduler goroutine
	owner := map[uintptr]int{} // object -> task holding it (absent = nobody)
	keep := []interface{}{}    // keep every object reachable: addresses must not be reused
	type pend struct {
		call int64
		obj  uintptr
	}
	pendGet := map[int]pend{}
	pendRet := map[int]pend{}
	hists := make([][]porcupine.Operation, len(pools))
	bornIn := map[uintptr]int{} // object -> the pool whose Get produced it first
	everReturned := map[uintptr]bool{}
	gotFromPoolAgain := 0
	inPoolOp := map[int]bool{} // task is between the invoke and the return of a Get / Return
	s.OnLockWait = func(t *Task) {
		// "obtaining and returning complete immediately": waiting for a lock that another caller holds only
		// while it manipulates the pool's own data is a matter of a few statements; a caller that holds the
		// pool's lock while it runs OTHER code (the factory: object construction) makes everybody else wait
		// for that work
		if !inPoolOp[t.ID] || !strings.HasPrefix(siteFunc(t.lastSite), "objectPool.") {
			return
		}
		var culprit *Task
		for _, h := range s.tasks {
			if h == t || h.locksHeld == 0 || !inPoolOp[h.ID] {
				continue
			}
			if strings.HasPrefix(siteFunc(h.lastSite), "objectPool.") {
				return // somebody holds a lock inside pool code: the wait may be for that one
			}
			culprit = h
		}
		if culprit != nil {
			s.Fail("c17/blocked", "lock-held-across-factory", fmt.Sprintf("task %d waits in %s for a pool lock while task %d holds a lock and runs %s (object construction inside the pool's critical section): Get / Return do not complete immediately, they wait for another caller's factory call",
				t.ID, siteString(t.lastSite), culprit.ID, siteString(culprit.lastSite)))
		}
	}
	s.OnEvent = func(ev *Event) {
		switch ev.Kind {
		case evGetInv:
			inPoolOp[ev.Task] = true
			pendGet[ev.Task] = pend{call: ev.Seq}
		case evGetRet:
			inPoolOp[ev.Task] = false
			if ev.Steps > limGet {
				s.Fail("c17/no-progress", "Get", fmt.Sprintf("task %d executed %d own statements inside one Get (solo baseline %d, limit %d): the call does not complete immediately", ev.Task, ev.Steps, baseGet, limGet))
			}
			p := pendGet[ev.Task]
			pi, _ := ev.Val.(int)
			hists[pi] = append(hists[pi], porcupine.Operation{ClientId: ev.Task, Input: poolIn{get: true}, Call: p.call, Output: ev.Obj, Return: ev.Seq})
			if ev.Obj != 0 {
				if b, ok := bornIn[ev.Obj]; !ok {
					bornIn[ev.Obj] = pi
				} else if b != pi {
					s.Fail("c17/cross-pool", "Get", fmt.Sprintf("task %d: Get on pool #%d (size %d) handed out object %#x, which was first obtained from pool #%d (size %d) of the same kind over the same maps: the two pools share their objects, so an object from an empty pool is not fresh and a pool's size does not bound what it retains", ev.Task, pi, sizes[pi], ev.Obj, b, sizes[b]))
					return
				}
			}
			if ev.Obj == 0 {
				s.Fail("c17/bad-fresh", "Get", fmt.Sprintf("task %d: Get returned nil or a non-pointer object", ev.Task))
				return
			}
			if h, ok := owner[ev.Obj]; ok {
				s.Fail("c17/double-handout", "Get", fmt.Sprintf("object %#x handed to task %d while task %d still holds it (event #%d)", ev.Obj, ev.Task, h, ev.Seq))
				return
			}
			owner[ev.Obj] = ev.Task
			if everReturned[ev.Obj] {
				gotFromPoolAgain++
			}
		case evRetInv:
			inPoolOp[ev.Task] = true
			delete(owner, ev.Obj)
			everReturned[ev.Obj] = true
			pendRet[ev.Task] = pend{call: ev.Seq, obj: ev.Obj}
		case evRetRet:
			inPoolOp[ev.Task] = false
			if ev.Steps > limRet {
				s.Fail("c17/no-progress", "Return", fmt.Sprintf("task %d executed %d own statements inside one Return (solo baseline %d, limit %d)", ev.Task, ev.Steps, baseRet, limRet))
			}
			p := pendRet[ev.Task]
			pi, _ := ev.Val.(int)
			hists[pi] = append(hists[pi], porcupine.Operation{ClientId: ev.Task, Input: poolIn{obj: p.obj}, Call: p.call, Output: nil, Return: ev.Seq})
		case evBad:
			s.Fail("c17/bad-use", "use", fmt.Sprintf("task %d: pooled object unusable or gave a different result than alone (code %v)", ev.Task, ev.Val))
		}
	}
	badMsgs := make([]string, ntasks+1)
	heldObjs := make([][]interface{}, ntasks+1)
	body := func(script []c17Op) func(t *Task) {
		return func(t *Task) {
			var held []interface{}
			var heldPool []int
			// every object ever obtained stays reachable until the run ends: objects are identified by
			// address, and a dropped, collected object's address could otherwise be reused by a fresh one
			// and look like a resurrected object
			var ever []interface{}
			// a panic that leaves Get, Return or the use of a pooled object is a verdict, not harness trouble
			safely := func(what string, f func()) (ok bool) {
				defer func() {
					if r := recover(); r != nil {
						badMsgs[t.ID] = fmt.Sprintf("%s panicked: %v", what, r)
						t.Emit(evBad, 0, 2)
					}
				}()
				f()
				return true
			}
			for _, op := range script {
				switch op.kind {
				case 'G':
					t.Emit(evGetInv, 0, nil)
					var x interface{}
					if !safely("Get", func() { x = pools[op.pool].Get() }) {
						return
					}
					held = append(held, x)
					heldPool = append(heldPool, op.pool)
					ever = append(ever, x)
					heldObjs[t.ID] = ever
					t.Emit(evGetRet, objID(x), op.pool)
				case 'S':
					// only this task runs, every other goroutine of the bubble is parked: the fake clock
					// jumps by the whole period at once
					t.Sleep(c17Idle[op.arg])
					t.Yield()
				case 'U':
					if useReal {
						var msg string
						if !safely("a round trip with a pooled object", func() { msg = c17Use(sh, held[op.arg]) }) {
							return
						}
						if msg != "" {
							badMsgs[t.ID] = msg
							t.Emit(evBad, 0, 1)
						}
					} else {
						t.Yield()
					}
				case 'R':
					x, pi := held[op.arg], heldPool[op.arg]
					held = append(held[:op.arg:op.arg], held[op.arg+1:]...)
					heldPool = append(heldPool[:op.arg:op.arg], heldPool[op.arg+1:]...)
					t.Emit(evRetInv, objID(x), nil)
					// an object goes back to the pool it came from
					if !safely("Return", func() { pools[pi].Return(x) }) {
						return
					}
					t.Emit(evRetRet, 0, pi)
				}
			}
		}
	}
	for t := 0; t < ntasks; t++ {
		s.Spawn(body(scripts[t]))
	}
	s.Run()
	o.Steps = s.Steps
	o.Evals = 1
	if s.Foreign {
		o.Unsupported = "a goroutine of the library's own waited for a lock that a parked caller task may hold; it would spin while simulated time cannot advance (the simulator schedules caller tasks only)"
		return o
	}
	if s.BlockedTask != nil {
		o.Fatal = true
		site := s.BlockedTask.lastSite
		return o.fail("c17/blocked", siteFunc(site), "%s(size %d), %d tasks: task %d is durably blocked inside the library after %s; the fake clock advanced with every goroutine parked",
			c17KindNames[kind], size, ntasks, s.BlockedTask.ID, siteString(site))
	}
	if s.Overrun {
		return o.fail("c17/no-progress", "run", "run exceeded %d simulated steps", s.MaxSteps)
	}
	if s.Deadlock {
		return o.fail("c17/blocked", "lock", "%s(size %d), %d tasks: every live task waits for a library lock that no runnable task holds (deadlock inside Get/Return)", c17KindNames[kind], size, ntasks)
	}
	for _, h := range heldObjs { // after the join: every object stays reachable until the run ends
		keep = append(keep, h...)
	}

	// drain: size+2 consecutive Gets, part of the checked history; at most `size` of them may
	// return a previously seen object
	if s.FailClass == "" {
		drainScript := []c17Op{}
		for pi, sz := range sizes {
			for i := 0; i < sz+2; i++ {
				drainScript = append(drainScript, c17Op{kind: 'G', pool: pi})
			}
		}
		d := NewSched(ch, polSequential, 1)
		d.Seq = s.Seq
		onEv := s.OnEvent
		d.OnEvent = func(ev *Event) {
			onEv(ev)
			if d.FailClass == "" && s.FailClass != "" {
				d.Fail(s.FailClass, s.FailKey, s.FailDetail)
			}
		}
		d.Spawn(body(drainScript))
		d.tasks[0].ID = ntasks // the drain client
		d.Run()
		o.Steps += d.Steps
		if d.BlockedTask != nil {
			o.Fatal = true
			return o.fail("c17/blocked", "Get", "drain: Get on a pool of size %d durably blocked", size)
		}
		for _, h := range heldObjs {
			keep = append(keep, h...)
		}
	}
	if s.FailClass != "" {
		o.fail(s.FailClass, s.FailKey, "%s(size %d), %d tasks, policy %d, mean quantum %d: %s", c17KindNames[kind], size, ntasks, policy, meanQ, s.FailDetail)
		if s.FailClass == "c17/bad-use" {
			for _, m := range badMsgs {
				if m != "" {
					o.Detail += " [" + m + "]"
					break
				}
			}
		}
	}

	// history check (outside the bubble: porcupine uses real goroutines and a real timeout)
	nhist := 0
	for _, h := range hists {
		nhist += len(h)
	}
	if o.Class == "" && nhist > 0 {
		o.post = func(o *Outcome) {
			// every pool of the run is checked against its own model: pools are independent
			for pi, hist := range hists {
				if len(hist) == 0 {
					continue
				}
				pm := poolModel(sizes[pi])
				res := porcupine.CheckOperationsTimeout(pm.ToModel(), hist, 8*time.Second)
				switch res {
				case porcupine.Illegal:
					o.fail("c17/not-linearizable", "history", "%s(size %d)%s: the recorded Get/Return history (%d operations, %d tasks) has no legal linearization against the pool model (|idle| <= %d; Return may drop; Get yields an idle or a fresh object): an object came back that nobody returned, or more returned objects were retained than the size allows",
						c17KindNames[kind], sizes[pi], map[bool]string{true: " (one of two pools over the same maps)", false: ""}[len(sizes) > 1], len(hist), ntasks, sizes[pi])
				case porcupine.Unknown:
					o.Probes["porcupine timed out (inconclusive, not reported)"]++
				}
			}
		}
	}

	// bookkeeping
	o.Fingerprint = s.fp.Sum()
	o.Nontrivial = s.Switches > 0 || s.Stalls > 0 || abandons > 0
	o.Faults["task stalled"] += s.Stalls
	o.Faults["clock jump (caller idle for 1 ms .. 45 min of simulated time)"] += idles
	o.Faults["holder abandoned its objects (never returns them)"] += abandons
	o.Faults["task waited for a library lock held by a preempted task"] += s.LockWaits
	o.Faults["context switch inside the library"] += s.Switches
	o.Probes["history operations checked by porcupine"] += nhist
	if len(sizes) > 1 {
		o.Probes["two pools of one kind over the same maps in one run"]++
	}
	if gotFromPoolAgain > 0 {
		o.Probes["a returned object was handed out again"]++
	}
	if size == 0 {
		o.Probes["pool of size 0"]++
	}
	if ntasks >= 32 {
		o.Probes[">= 32 tasks"]++
	}
	for p := range s.SwitchSet {
		f0, f1 := siteFunc(p[0]), siteFunc(p[1])
		if strings.HasPrefix(f0, "objectPool.") {
			o.Probes["task preempted inside "+f0]++
			break
		}
		_ = f1
	}
	o.SwitchPairs = len(s.SwitchSet)
	o.Sample = map[string]interface{}{"pool": fmt.Sprintf("%s(%d)", c17KindNames[kind], size), "tasks": ntasks, "policy": policy, "mean_quantum": meanQ,
		"history_ops": nhist, "context_switches": s.Switches, "script_task0": scriptString(scripts[0])}
	_ = keep
	return o
}

func scriptString(s []c17Op) string {
	var b strings.Builder
	for _, op := range s {
		b.WriteByte(op.kind)
	}
	return b.String()
}
