#include "textflag.h"

// func getg() uintptr
// The address of the running goroutine's g: a cheap identity (the scheduler hooks use it to tell a
// simulator task from a goroutine the library started itself).
TEXT ·getg(SB),NOSPLIT,$0-8
	MOVQ (TLS), AX
	MOVQ AX, ret+0(FP)
	RET
