#!/bin/bash
# build.sh <scratch-dir> [race]
# Copies /repo's CURRENT WORKING TREE (or $VERIF_REPO) into <scratch-dir>/repo, instruments the copy,
# and builds the worker test binary against it: <scratch-dir>/worker (plain) and, with "race",
# <scratch-dir>/worker-race. Exit 2 on any build problem (never reported as a violation).
set -u
S="$1"; MODE="${2:-plain}"
VERIF="$(cd "$(dirname "$0")/.." && pwd)"
REPO="${VERIF_REPO:-/repo}"
export GOFLAGS=-mod=mod GOPROXY=off GOSUMDB=off GOTOOLCHAIN=local GONOSUMDB=* GOFLAGS="-mod=mod"
GO=go1.26.8
command -v $GO >/dev/null || GO=/opt/veriftools/go1.26.8/bin/go
fail() { echo "build: $*" >&2; exit 2; }

mkdir -p "$S/repo" "$S/sim" || fail "cannot create scratch"
rsync -a --exclude .git --exclude '*_test.go' --exclude examples --exclude tests "$REPO"/ "$S/repo"/ || fail "copy of $REPO failed"
if [ ! -x "$S/instr" ]; then
  (cd "$VERIF/instr" && $GO build -o "$S/instr" .) || fail "instrumenter does not build"
fi
instrument() {
  rm -rf "$S/repo"; mkdir -p "$S/repo"
  rsync -a --exclude .git --exclude '*_test.go' --exclude examples --exclude tests "$REPO"/ "$S/repo"/ || fail "copy of $REPO failed"
  "$S/instr" "$S/repo" > "$S/instr.log" 2>&1 || fail "instrumenter failed: $(cat "$S/instr.log")"
}
instrument
# the cooperative-lock rewrite assumes sync.Mutex-like types (TryLock); if the copy does not compile with
# it (a custom locker), fall back to plain statement instrumentation
if ! (cd "$S/repo" && $GO build ./... > "$S/build0.log" 2>&1); then
  INSTR_NOLOCKS=1 instrument
  (cd "$S/repo" && $GO build ./... > "$S/build0.log" 2>&1) || fail "instrumented copy does not compile: $(tail -20 "$S/build0.log")"
fi
cp "$VERIF"/sim/*.go "$VERIF"/sim/*.s "$S/sim"/ || fail "copy sim"
cat > "$S/sim/go.mod" <<EOF
module verif/sim

go 1.26

require (
	github.com/anishathalye/porcupine v1.3.0
	github.com/vogo/gohessian v0.0.0
)

replace github.com/vogo/gohessian => ../repo
EOF
cp "$REPO/go.sum" "$S/sim/go.sum" 2>/dev/null
cd "$S/sim" || fail "cd"
if [ "$MODE" = race ]; then
  $GO test -c -race -vet=off -o "$S/worker-race" . > "$S/build.log" 2>&1 || fail "worker (race) does not build: $(tail -30 "$S/build.log")"
else
  $GO test -c -vet=off -o "$S/worker" . > "$S/build.log" 2>&1 || fail "worker does not build: $(tail -30 "$S/build.log")"
fi
exit 0
