#!/bin/bash
# Run once after a fresh restore, offline: warms the Go build cache (std with and without -race under
# go1.26.8, the worker, the supervisor, the instrumenter) so that the first check does not pay for it.
set -u
VERIF="$(cd "$(dirname "$0")/.." && pwd)"
export GOFLAGS=-mod=mod GOPROXY=off GOSUMDB=off GOTOOLCHAIN=local
S="$(mktemp -d "${TMPDIR:-/tmp}/verif-setup-XXXXXX")" || exit 2
trap 'rm -rf "$S"' EXIT
"$VERIF/bin/build.sh" "$S" plain || exit 2
"$VERIF/bin/build.sh" "$S" race || exit 2
GO=go1.26.8; command -v $GO >/dev/null || GO=/opt/veriftools/go1.26.8/bin/go
(cd "$VERIF/sup" && $GO build -o "$S/sup" .) || exit 2
mkdir -p "$VERIF/evidence" "$VERIF/replays"
echo "setup ok"
