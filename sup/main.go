// sup is the supervisor of a check: it starts one worker process per core over disjoint run
// indices, attributes crashes / race reports / hangs to the run in flight, shrinks the first
// violation, confirms that the minimised replay file reproduces in two fresh processes, writes the
// evidence file and decides the exit code:
//
//	0  property held on everything explored (KNOWN-FINDING lines allowed)
//	1  VIOLATION property=<id> replay=<path>   (confirmed, minimised, replayable, not a known finding)
//	2  harness trouble (build, nondeterministic replay, watchdog without reproduction)
package main

import (
	"encoding/binary"
	"encoding/json"
	"flag"
	"fmt"
	"os"
	"os/exec"
	"path/filepath"
	"sort"
	"strconv"
	"strings"
	"sync"
	"syscall"
	"time"
)

type Violation struct {
	Property  string            `json:"property"`
	Class     string            `json:"class"`
	Key       string            `json:"key"`
	Detail    string            `json:"detail"`
	Seed      int64             `json:"seed"`
	Run       int64             `json:"run"`
	Tier      string            `json:"tier"`
	Pin       string            `json:"pin,omitempty"`
	Extra     map[string]string `json:"extra,omitempty"`
	Trace     []uint64          `json:"trace"`
	Labels    []string          `json:"labels,omitempty"`
	Shrunk    bool              `json:"shrunk"`
	Calls     int               `json:"shrink_calls,omitempty"`
	Fp        uint64            `json:"fingerprint"`
	Stderr    string            `json:"stderr,omitempty"`
	Killed    bool              `json:"killed_worker,omitempty"`
	ReplayCmd string            `json:"replay_cmd,omitempty"`
	// Prelude: run indices executed in the same process before the replayed run (see the worker)
	Prelude []int64 `json:"prelude,omitempty"`
}

type Outcome struct {
	Class  string `json:"class"`
	Key    string `json:"key"`
	Detail string `json:"detail"`
	Fp     uint64 `json:"fp"`
}

type WorkerResult struct {
	Runs       int64                 `json:"runs"`
	Skipped    int64                 `json:"skipped"`
	Evals      int64                 `json:"evals"`
	Steps      uint64                `json:"steps"`
	Nontrivial int64                 `json:"nontrivial"`
	Faults     map[string]int        `json:"faults"`
	Probes     map[string]int        `json:"probes"`
	Fps        []uint64              `json:"fps"`
	AllFps     []uint64              `json:"all_fps"`
	Samples    []interface{}         `json:"samples"`
	Violation  *Violation            `json:"violation"`
	KnownHits  map[string]int64      `json:"known_hits"`
	KnownFirst map[string]*Violation `json:"known_first"`
	WallS      float64               `json:"wall_s"`
	Outcome    *Outcome              `json:"outcome"`
	Sites      int                   `json:"sites"`
}

type KnownFinding struct {
	Property string `json:"property"`
	ID       string `json:"id"`
	Class    string `json:"class"`
	Key      string `json:"key"`
	What     string `json:"what"`
	Replay   string `json:"replay,omitempty"`
}

type propMeta struct {
	Level                   string
	Race                    bool
	QuickRuns               int64
	ThoroughRuns            int64
	MemLimitKB              int64         // ulimit -v for workers (0 = none)
	RunTimeout              time.Duration // watchdog: max wall time of a whole worker in quick tier
	ColdQuick, ColdThorough int64         // extra runs, each in its own fresh process (lazily initialised library state is cold)
	Rule                    string
	Assumptions             []string
	Real                    []string
	Simulated               []string
	EvalsAre                string
	CrashClass              string   // class assigned to a worker death that is not a race report
	ExpectProbes            []string // "rare condition reached" probes that must not stay at zero (reported, never changes the exit code)
}

var commonReal = []string{"the whole gohessian package (instrumented scratch copy of /repo's working tree)", "reflect", "the Go runtime"}

var meta = map[string]*propMeta{
	"C15": {
		Level: "fault_enumeration", QuickRuns: 2400, ThoroughRuns: 80000,
		Rule: "one run = a seeded stream of 1..4 zoo values x one of 4 documented encode entry points; for it EVERY index k of the k-th Write x 9 fault kinds {err once, err from k on, short count + ErrShortWrite, short count + nil, short by exactly one byte + nil, io.EOF once, a temporary error once, a wrapper error without a cause once, a full count together with an error} is injected on a fresh instance (exhaustive per run); one destination in three also offers WriteByte / WriteString / Flush. Oracles: a call during which a fault fired returns an error; a call that returns nil next to a faulted one delivered exactly its control bytes (one-shot entry points: also after a failed call; streams: until the first fault). evaluations = fault injections performed. A run is non-trivial when at least one injected fault actually fired; distinct = distinct fingerprints (entry point, write count, hash of the fault-free bytes) among those runs.",
		Assumptions: []string{"values are drawn from the harness zoo (see sim/zoo.go); runs whose fault-free control returns an error are skipped and counted, not reported",
			"a short count on a zero-length write is impossible and is not injected"},
		Real: commonReal, Simulated: []string{"destination io.Writer (fault-injecting)", "map iteration order inside writeMap (seeded)", "logger (no-op)"},
		EvalsAre: "fault injections",
	},
	"C17": {
		Level: "exploration", Race: true, QuickRuns: 6000, ThoroughRuns: 150000,
		Rule: "one run = one pool (NewSerializerPool / NewEncoderPool / NewDecoderPool, size 0..8) and 1..64 client tasks with drawn Get/use/Return scripts (a task may hold up to 4 objects), executed under the seeded cooperative scheduler (random / round-robin / PCT, mean quantum 1..100 library statements, preemption inside Get and Return), optionally with stalled and abandoning holders, with callers' idle periods of 1 ms .. 45 min on the fake clock (one run in three) and with a sibling pool of the same kind over the same maps (one run in four; an object must never leave a pool other than the one that produced it); followed by a drain of size+2 Gets per pool. Checked: ownership table after every event, fake-clock block detection, caller's own statements per call, porcupine on the recorded history against a nondeterministic pool model, race detector. A run is non-trivial when at least one context switch or scheduler fault happened; distinct = distinct fingerprints of the scheduling + event log.",
		Assumptions: []string{"objects are identified by pointer and kept reachable until the run ends", "a history on which porcupine times out (8 s) is inconclusive: counted, never reported, never a pass",
			"preemption is at statement granularity (instrumented copy); intra-statement conflicts are the race detector's job",
			"the simulator schedules caller tasks only: goroutines the library starts itself run outside the scheduler (tolerated; the oracles judge task events); one that waits for a cooperative lock, or a channel / timer kept from one simulation run to the next, ends the check with exit 2 (no verdict)"},
		Real:      append([]string{"pool.go and the factories (real encoders / decoders / serializers)", "Go race detector (made schedule-deterministic by the RaceDisable bracket)", "porcupine v1.3.0"}, commonReal...),
		Simulated: []string{"caller goroutine scheduling (one task unparked at a time, choice stream decides)", "fake clock (testing/synctest): block detection and callers' idle periods", "logger (no-op)"},
		EvalsAre:  "simulated runs",
	},
	"C06": {
		Level: "exploration", QuickRuns: 12000, ThoroughRuns: 400000,
		Rule: "one run = a stream of 1..50 seeded zoo values of mixed types (shared pointers also across values, >16 classes, strings / binaries around the chunk sizes) written by a writer task through one of 3 documented streaming entry-point pairs into a simulated pipe and read by a reader task, under the seeded scheduler (random / round-robin / PCT, mean quantum 1..1000 statements, optional stalls). The pipe cuts writes into segments with delivery delays, serves short reads, blocks the reader, may return (0,nil) once or data+EOF, optionally sits under a real bufio.Reader of size 16..4096, and optionally runs in lock-step (writer waits for the reader's ack). One run in five starts the stream on instances that have already carried another stream (Reset / WriteTo / ReadFrom on used instances); values include untyped containers and now and then a list of 4095..20001 elements. Oracles: i-th read equals the i-th written value up to the documented normalisations incl. pointer identity across values; bytes consumed after read i == end offset of value i (exact framing); no internal carrier types; no error / panic on a healthy stream; no deadlock (over-read in lock-step) and completion within the step budget. Non-trivial = at least one cut, short read, reader block or context switch; distinct = distinct (schedule, stream) fingerprints.",
		Assumptions: []string{"values are drawn from the core domain of DESIGN.md section 5 (shapes that are known not to survive even a one-shot round trip are listed as known findings or excluded there)",
			"expected value boundaries come from encoding the same values alone through an identical encoder (the encoder is deterministic once map order is seeded)"},
		Real: append([]string{"bufio.Reader (when drawn)"}, commonReal...), Simulated: []string{"byte pipe between encoder and decoder (segmentation, delays, short reads, blocking, lock-step acks)", "writer / reader task scheduling", "map iteration order (seeded)", "logger (no-op)"},
		EvalsAre: "simulated streams",
	},
	"C11": {
		Level: "exploration", QuickRuns: 16000, ThoroughRuns: 400000,
		Rule:        "one run = one instance (Serializer or Encoder+Decoder over private copies of the complete maps) driven through a seeded history of 0..30 calls {encode, encode of an unrepresentable value, WriteTo aborted half-way by a writer fault at a drawn Write index and kind, decode, decode of a cut/reset/damaged stream (possibly panicking; harness recovers), streaming writes / reads (also continued until a read fails), Reset, the caller changing a registration (Register* or a write to its map; the reference instance receives the same calls)}, each with a drawn value (sometimes the previous one again, sometimes a message with 9..24 classes); then a probe {Encode/ToBytes, WriteTo, Decode/ToObject, ReadFrom} on the used instance and on a fresh one: bytes, canonical value (incl. dynamic types and pointer identity) and masked error must be identical. Around every call the value passed in, the bytes passed in and both maps are snapshotted and compared; results of earlier calls are re-compared after every later call. 30% of the runs instead enumerate EVERY abort point (every Write index x 9 kinds / every cut offset) of one value followed by a probe. evaluations = probe comparisons. Non-trivial = history non-empty or enumerating mode; distinct = distinct (history, draws) fingerprints.",
		Assumptions: []string{"map iteration order inside writeMap is pinned by the instrumentation seam, so byte equality is meaningful", "error texts are compared with pointer values masked"},
		Real:        append([]string{"bufio.Reader, bytes.Buffer"}, commonReal...), Simulated: []string{"destination io.Writer (fault-injecting)", "source reader (cut / reset / damaged)", "map iteration order (seeded)", "logger (no-op)"},
		EvalsAre: "probe comparisons (used instance vs fresh instance)",
	},
	"C12": {
		Level: "exploration", Race: true, QuickRuns: 3000, ThoroughRuns: 100000, ColdQuick: 160, ColdThorough: 3200,
		Rule: "one run = 1..4 shared read-only zoo values (incl. cyclic graphs), one shared type map + name map, N = 2..64 caller tasks each driving its own Serializer or Encoder+Decoder (constructed directly, or obtained from shared pools of size 0..8 and returned) through a drawn script of 1..6 ops {ToBytes, ToObject, WriteTo+ReadFrom, 2-value stream}; all executed under the seeded cooperative scheduler (random / round-robin / PCT, mean quantum 1..100 statements, optional stalls) in a -race build whose hand-off is hidden from the detector. Oracles: every op result equals the result of the same op run alone on a fresh instance (bytes / canonical value rendering incl. pointer identity / masked error text), zero race reports, shared inputs and maps unchanged. A run is non-trivial when at least one context switch happened inside library code; distinct = distinct scheduling fingerprints.",
		Assumptions: []string{"a result mismatch that also shows when the same scripts run strictly one task after another is a reuse defect (C11), counted as a probe and not reported under C12",
			"conflicts are found only on paths the scripts execute; the statement's static clause (no write to package-level state anywhere reachable) is not decided by this technique",
			"preemption is at statement granularity; intra-statement conflicts are found by the race detector, not by the result oracle",
			"the simulator schedules caller tasks only: goroutines the library starts itself run outside the scheduler (tolerated); one that waits for a cooperative lock ends the check with exit 2 (no verdict)"},
		Real:      append([]string{"pool.go (when pooled)", "bufio.Reader, bytes.Buffer", "Go race detector (schedule-deterministic through the RaceDisable bracket)"}, commonReal...),
		Simulated: []string{"caller goroutine scheduling", "fake clock (testing/synctest) for block detection", "map iteration order inside writeMap (seeded)", "logger (no-op)"},
		EvalsAre:  "simulated runs",
	},
	"C14": {
		Level: "exploration", QuickRuns: 3200, ThoroughRuns: 60000, MemLimitKB: 6 << 20,
		Rule: "one run = a valid stream of 1..4 seeded zoo values produced by the real encoder x one of 7 documented decode entry points x a drawn type map (complete / empty / partial / shuffled); the transport then delivers (a) the undamaged stream, (b) EVERY prefix of it ended by EOF and by a non-EOF reset, and every third prefix ended by a peer gone silent (a temporary error on every further read) (all cut offsets; strided only for long streams), (c) 24 (quick) / 64 (thorough) drawn structure-aware damage plans of 1..3 faults (flip, set-to-tag, drop, dup, swap, insert, noise) biased to the offsets where the encoder started a write. evaluations = damaged decodes. A run is non-trivial when a fault changed the delivered stream; distinct = distinct (entry point, type-map kind, valid stream hash).",
		Assumptions: []string{"time is measured in executed library statements (instrumented copy), memory with runtime/metrics /gc/heap/allocs:bytes plus the growth of /memory/classes/heap/stacks:bytes around the decode (each decode runs on a goroutine of its own); goroutines alive 2 s after a run's last decode returned are a leak; budgets are 100x (time) and 30x + 1 MiB (memory) the largest per-byte ratio measured on 400 undamaged streams in the same process, clamped to fixed ceilings",
			"workers run under ulimit -v 6 GiB and a wall-clock watchdog; a worker death is attributed to the run in flight and must reproduce from (seed, run) before it is reported"},
		Real: append([]string{"bufio.Reader (drawn size) in the bufio entry point"}, commonReal...), Simulated: []string{"sender->decoder transport (SimReader without read-ahead, fault plans)", "simulated clock = executed statements", "logger (no-op)", "map iteration order in the sender (seeded)"},
		EvalsAre: "damaged decodes",
	},
}

var expectProbes = map[string][]string{
	"C06": {"back-reference to a node created for an earlier value", "string crossing the chunk size", "binary crossing the chunk size", "lock-step mode (writer waits for the reader's ack)",
		"reader blocked mid-value", "reader blocked / short read in the middle of a multi-byte rune", "stream with more than 16 classes (long-form instances)", "read through bufio (size 16)", "short read", "write cut into segments"},
	"C11": {"abort landed after a class definition was registered (instance write)", "abort landed after a ref was registered", "abort landed inside a class definition", "history contained a call aborted half-way",
		"probe stream depends on state of an earlier message", "write-side abort index enumerated exhaustively", "read-side cut offset enumerated exhaustively", "continued read failed at the ordinary end of the stream"},
	"C12": {"switch inside writeObject / class-table lookup", "switch inside encodeString / encodeBinary", "switch inside writeMap", "switch inside pool Get / Return", "instances obtained from a shared pool", ">= 32 tasks",
		"input with 12..24 distinct classes in one message"},
	"C14": {"every cut/reset offset of the stream enumerated", "hostile structured stream (DAG / deep nesting / reference fan-in)", "valid stream uses: type reference", "damaged stream answered with an error",
		"read after an erroring streaming read returned", "flip", "set", "drop", "dup", "swap", "insert", "noise", "cut", "reset"},
	"C15": {"fault on a class-definition write", "fault on an instance tag / object write", "fault on a list header / element", "fault on a map header / terminator", "fault on a null / scalar write",
		"fault on a back-reference", "fault on the last write of the stream", "fault on a write of a later value of a stream"},
	"C17": {"task preempted inside objectPool.Get", "task preempted inside objectPool.Return", "pool of size 0", ">= 32 tasks", "a returned object was handed out again", "holder abandoned its objects (never returns them)", "task stalled", "clock jump (caller idle for 1 ms .. 45 min of simulated time)"},
}

var (
	verifDir string
	scratch  string
	prop     string
	tier     string
	seed     int64
	workers  int
)

func trouble(format string, a ...interface{}) {
	fmt.Fprintf(os.Stderr, "sup: "+format+"\n", a...)
	os.Exit(2)
}

type workerArgs struct {
	Prop     string `json:"prop"`
	Mode     string `json:"mode"`
	Seed     int64  `json:"seed"`
	From     int64  `json:"from"`
	Stride   int64  `json:"stride"`
	Count    int64  `json:"count"`
	Tier     string `json:"tier"`
	Out      string `json:"out"`
	Cur      string `json:"cur"`
	File     string `json:"file"`
	Budget   int    `json:"budget"`
	Known    string `json:"known"`
	Labels   bool   `json:"labels"`
	TraceOut string `json:"trace_out"`
}

type procResult struct {
	Res      *WorkerResult
	ExitCode int
	Signal   string
	Stderr   string
	CurRun   int64
	TimedOut bool
	Wall     time.Duration
}

var procSeq int
var procMu sync.Mutex

// runWorker starts one worker process and waits for it.
func runWorker(m *propMeta, a workerArgs, timeout time.Duration) *procResult {
	procMu.Lock()
	procSeq++
	id := procSeq
	procMu.Unlock()
	a.Out = filepath.Join(scratch, fmt.Sprintf("out-%d.json", id))
	a.Cur = filepath.Join(scratch, fmt.Sprintf("cur-%d.bin", id))
	os.Remove(a.Out)
	os.Remove(a.Cur)
	bin := filepath.Join(scratch, "worker")
	if m.Race {
		bin = filepath.Join(scratch, "worker-race")
	}
	js, _ := json.Marshal(a)
	var cmd *exec.Cmd
	if m.MemLimitKB > 0 {
		cmd = exec.Command("/bin/bash", "-c", fmt.Sprintf("ulimit -v %d; exec %s -test.run '^TestWorker$' -test.timeout 0", m.MemLimitKB, bin))
	} else {
		cmd = exec.Command(bin, "-test.run", "^TestWorker$", "-test.timeout", "0")
	}
	cmd.Env = append(os.Environ(), "VF_ARGS="+string(js), "GORACE=halt_on_error=1 exitcode=66", "GOMAXPROCS="+gomaxprocs(m), "GOTRACEBACK=all")
	var stderr strings.Builder
	cmd.Stderr = &limitedWriter{w: &stderr, max: 64 << 10}
	cmd.Stdout = nil
	start := time.Now()
	if err := cmd.Start(); err != nil {
		trouble("cannot start worker: %v", err)
	}
	done := make(chan error, 1)
	go func() { done <- cmd.Wait() }()
	pr := &procResult{CurRun: -1}
	select {
	case err := <-done:
		if err != nil {
			if ee, ok := err.(*exec.ExitError); ok {
				ws := ee.Sys().(syscall.WaitStatus)
				if ws.Signaled() {
					pr.Signal = ws.Signal().String()
					pr.ExitCode = -1
				} else {
					pr.ExitCode = ws.ExitStatus()
				}
			} else {
				trouble("worker wait: %v", err)
			}
		}
	case <-time.After(timeout):
		cmd.Process.Kill()
		<-done
		pr.TimedOut = true
		pr.ExitCode = -1
	}
	pr.Wall = time.Since(start)
	pr.Stderr = stderr.String()
	if b, err := os.ReadFile(a.Cur); err == nil && len(b) >= 8 {
		pr.CurRun = int64(binary.LittleEndian.Uint64(b))
	}
	if b, err := os.ReadFile(a.Out); err == nil {
		var r WorkerResult
		if json.Unmarshal(b, &r) == nil {
			pr.Res = &r
		}
	}
	if os.Getenv("VERIF_DEBUG") == "" {
		os.Remove(a.Out)
	}
	os.Remove(a.Cur)
	return pr
}

type limitedWriter struct {
	w   *strings.Builder
	max int
}

func (l *limitedWriter) Write(p []byte) (int, error) {
	if l.w.Len() < l.max {
		room := l.max - l.w.Len()
		if room > len(p) {
			room = len(p)
		}
		l.w.Write(p[:room])
	}
	return len(p), nil
}

// classify turns a worker death into a violation class ("" if the process ended normally).
func classify(m *propMeta, pr *procResult) (class, key string) {
	switch {
	case pr.TimedOut || pr.ExitCode == 5:
		return strings.ToLower(prop) + "/hang", "watchdog"
	case pr.ExitCode == 66 || strings.Contains(pr.Stderr, "WARNING: DATA RACE"):
		return strings.ToLower(prop) + "/race", raceKey(pr.Stderr)
	case pr.ExitCode == 3 || pr.ExitCode == 0:
		return "", ""
	case strings.Contains(pr.Stderr, "out of memory") || strings.Contains(pr.Stderr, "cannot allocate memory") || pr.Signal == "killed":
		return strings.ToLower(prop) + "/alloc", "process-oom"
	case strings.Contains(pr.Stderr, "concurrent map"):
		return strings.ToLower(prop) + "/race", "concurrent-map-access"
	case strings.Contains(pr.Stderr, "all goroutines are asleep") || strings.Contains(pr.Stderr, "deadlock"):
		return strings.ToLower(prop) + "/blocked", "deadlock"
	case strings.Contains(pr.Stderr, "stack overflow") || strings.Contains(pr.Stderr, "goroutine stack exceeds"):
		return strings.ToLower(prop) + "/crash", "stack-overflow"
	case pr.ExitCode == 7:
		// the worker met library-owned goroutines (see the worker's UNSUPPORTED line): a limitation
		return "cross-bubble", ""
	case strings.Contains(pr.Stderr, "from outside bubble"):
		// the library kept a channel / timer that was created in an earlier run's bubble (package-level state
		// crossing simulation runs): a limitation of running many runs per process, not a verdict
		return "cross-bubble", ""
	case strings.Contains(pr.Stderr, "fatal error:"):
		return strings.ToLower(prop) + "/crash", "fatal-error"
	}
	if prop == "C14" {
		// safety net: a panic that left a decoder entry point (or a decoder constructor) through a path the
		// worker does not guard is still "the decoder crashed", not harness trouble
		if f := escapedDecoderPanic(pr.Stderr); f != "" {
			return "c14/panic", f
		}
	}
	return "harness", ""
}

// escapedDecoderPanic returns the innermost library function of the panicking goroutine when the frames
// between the panic and the first harness frame are library frames that include a decoder entry point.
func escapedDecoderPanic(stderr string) string {
	i := strings.Index(stderr, "panic:")
	j := strings.Index(stderr, "[running]:")
	if i < 0 || j < 0 {
		return ""
	}
	inner, decoder := "", false
	for _, line := range strings.Split(stderr[j:], "\n") {
		line = strings.TrimSpace(line)
		if strings.HasPrefix(line, "verif/sim.") || line == "" {
			break
		}
		if strings.HasPrefix(line, "github.com/vogo/gohessian.") {
			f := strings.TrimPrefix(line, "github.com/vogo/gohessian.")
			if k := strings.LastIndex(f, "("); k > 0 {
				f = f[:k]
			}
			if inner == "" {
				inner = strings.NewReplacer("(*", "", ")", "").Replace(f)
			}
			if strings.HasPrefix(f, "(*Decoder).") || f == "NewDecoder" || f == "NewSerializer" || f == "ToObject" || strings.HasPrefix(f, "(*goHessian).") {
				decoder = true
			}
		}
	}
	if decoder {
		return inner
	}
	return ""
}

// raceKey extracts the first gohessian frame pair of a race report.
func raceKey(stderr string) string {
	var fr []string
	for _, line := range strings.Split(stderr, "\n") {
		line = strings.TrimSpace(line)
		if strings.HasPrefix(line, "github.com/vogo/gohessian.") {
			f := strings.TrimPrefix(line, "github.com/vogo/gohessian.")
			if i := strings.Index(f, "("); i > 0 {
				f = f[:i]
			}
			f = strings.NewReplacer("(*", "", ")", "").Replace(f)
			if len(fr) == 0 || fr[len(fr)-1] != f {
				fr = append(fr, f)
			}
			if len(fr) >= 1 {
				break
			}
		}
	}
	return strings.Join(fr, "|")
}

func writeJSON(path string, v interface{}) {
	b, err := json.MarshalIndent(v, "", " ")
	if err != nil {
		trouble("marshal: %v", err)
	}
	if err := os.WriteFile(path, b, 0o644); err != nil {
		trouble("write %s: %v", path, err)
	}
}

// replayOnce runs a replay file in a fresh process and returns the class observed.
func replayOnce(m *propMeta, file string) (class, key, detail string, pr *procResult) {
	pr = runWorker(m, workerArgs{Prop: prop, Mode: "replay", File: file}, 3*time.Minute)
	if c, k := classify(m, pr); c != "" {
		if c == "harness" {
			return "harness", "", pr.Stderr, pr
		}
		return c, k, firstLines(pr.Stderr, 40), pr
	}
	if pr.Res != nil && pr.Res.Violation != nil {
		return pr.Res.Violation.Class, pr.Res.Violation.Key, pr.Res.Violation.Detail, pr
	}
	return "", "", "", pr
}

func firstLines(s string, n int) string {
	l := strings.Split(s, "\n")
	if len(l) > n {
		l = l[:n]
	}
	return strings.Join(l, "\n")
}

// shrinkOutOfProcess minimises a violation whose class kills the worker process: one process per
// candidate, a parallel batch at a time.
func shrinkOutOfProcess(m *propMeta, v *Violation, budget int) *Violation {
	cur := append([]uint64(nil), v.Trace...)
	calls := 0
	test := func(cands [][]uint64) int {
		// returns the index of the first candidate that reproduces, or -1
		res := make([]bool, len(cands))
		var wg sync.WaitGroup
		for i := range cands {
			wg.Add(1)
			go func(i int) {
				defer wg.Done()
				nv := *v
				nv.Trace = cands[i]
				nv.Pin = ""
				f := filepath.Join(scratch, fmt.Sprintf("cand-%d-%d.json", calls, i))
				writeJSON(f, &nv)
				c, _, _, _ := replayOnce(m, f)
				os.Remove(f)
				res[i] = c == v.Class
			}(i)
		}
		wg.Wait()
		calls += len(cands)
		for i, ok := range res {
			if ok {
				return i
			}
		}
		return -1
	}
	par := workers
	improved := true
	deadline := time.Now().Add(150 * time.Second)
	for improved && calls < budget && time.Now().Before(deadline) {
		improved = false
		// delete blocks
		for size := len(cur) / 2; size >= 1 && calls < budget; size /= 2 {
			i := 0
			for i+size <= len(cur) && calls < budget && time.Now().Before(deadline) {
				var cands [][]uint64
				var offs []int
				for j := i; j+size <= len(cur) && len(cands) < par; j += size {
					cands = append(cands, append(append([]uint64(nil), cur[:j]...), cur[j+size:]...))
					offs = append(offs, j)
				}
				if k := test(cands); k >= 0 {
					cur = cands[k]
					improved = true
					i = offs[k]
				} else {
					i = offs[len(offs)-1] + size
				}
			}
		}
		// zero / halve values
		for i := 0; i < len(cur) && calls < budget && time.Now().Before(deadline); {
			var cands [][]uint64
			var idx []int
			for j := i; j < len(cur) && len(cands) < par; j++ {
				if cur[j] == 0 {
					continue
				}
				c := append([]uint64(nil), cur...)
				c[j] = 0
				cands = append(cands, c)
				idx = append(idx, j)
			}
			if len(cands) == 0 {
				break
			}
			if k := test(cands); k >= 0 {
				cur = cands[k]
				improved = true
				i = idx[k] + 1
			} else {
				i = idx[len(idx)-1] + 1
			}
		}
	}
	nv := *v
	nv.Trace = cur
	nv.Pin = ""
	nv.Shrunk = true
	nv.Calls = calls
	return &nv
}

func main() {
	flag.StringVar(&prop, "prop", "", "property id")
	flag.StringVar(&tier, "tier", "quick", "quick | thorough")
	flag.StringVar(&scratch, "scratch", "", "scratch dir holding the built worker")
	flag.StringVar(&verifDir, "verif", "/verif", "verif dir")
	replay := flag.String("replay", "", "replay file")
	runsOverride := flag.Int64("runs", 0, "override number of runs")
	noEvidence := flag.Bool("no-evidence", false, "do not write the evidence file (self-tests)")
	flag.IntVar(&workers, "workers", 16, "worker processes")
	flag.Parse()
	m := meta[prop]
	if m == nil {
		trouble("unknown property %q", prop)
	}
	seed = 20260928
	if s := os.Getenv("VERIF_SEED"); s != "" {
		if v, err := strconv.ParseInt(s, 10, 64); err == nil {
			seed = v
		}
	}
	fmt.Printf("check %s tier=%s seed=%d\n", prop, tier, seed)
	start := time.Now()

	if *replay != "" {
		c, k, d, pr := replayOnce(m, *replay)
		if c == "harness" {
			trouble("replay: worker failed:\n%s", pr.Stderr)
		}
		if c == "" {
			fmt.Printf("replay %s: no violation reproduced\n", *replay)
			os.Exit(0)
		}
		fmt.Printf("replay reproduced: class=%s key=%s\n%s\n", c, k, d)
		fmt.Printf("VIOLATION property=%s replay=%s\n", prop, *replay)
		os.Exit(1)
	}

	knownPath := filepath.Join(verifDir, "known_findings.json")
	var known []KnownFinding
	if b, err := os.ReadFile(knownPath); err == nil {
		var f struct {
			Findings []KnownFinding `json:"findings"`
		}
		if err := json.Unmarshal(b, &f); err != nil {
			trouble("known_findings.json: %v", err)
		}
		for _, k := range f.Findings {
			if k.Property == prop {
				known = append(known, k)
			}
		}
	}

	// 1. listed known findings: replay each reproducer; print KNOWN-FINDING only while it still fails
	knownStill := map[string]bool{}
	crossBubble := ""
	var knownLines []string
	for _, k := range known {
		if k.Replay == "" {
			continue
		}
		c, _, _, _ := replayOnce(m, filepath.Join(verifDir, k.Replay))
		if c == "harness" {
			trouble("known finding %s: replay failed to run", k.ID)
		}
		if c == k.Class {
			knownStill[k.ID] = true
			line := fmt.Sprintf("KNOWN-FINDING: property=%s %s [%s]", prop, k.What, k.ID)
			knownLines = append(knownLines, line)
			fmt.Println(line)
		}
	}

	// 2. light determinism recheck: the first 8 runs twice, fingerprints must agree
	det := "not run"
	{
		a := workerArgs{Prop: prop, Mode: "explore", Seed: seed, From: 0, Stride: 1, Count: 8, Tier: tier, Known: knownPath, Labels: true}
		p1 := runWorker(m, a, 5*time.Minute)
		p2 := runWorker(m, a, 5*time.Minute)
		if p1.Res != nil && p2.Res != nil {
			if fmt.Sprint(p1.Res.AllFps) == fmt.Sprint(p2.Res.AllFps) && len(p1.Res.AllFps) > 0 {
				det = fmt.Sprintf("ok (%d runs x 2 processes, identical fingerprints)", len(p1.Res.AllFps))
			} else if len(p1.Res.AllFps) != len(p2.Res.AllFps) {
				det = fmt.Sprintf("inconclusive (one recheck worker ended after %d runs, the other after %d; see exploration)", len(p1.Res.AllFps), len(p2.Res.AllFps))
			} else {
				det = fmt.Sprintf("MISMATCH %v vs %v", p1.Res.AllFps, p2.Res.AllFps)
				fmt.Fprintln(os.Stderr, "sup: WARNING determinism recheck:", det)
			}
		} else {
			det = "inconclusive (a recheck worker ended early; see exploration)"
		}
	}

	// 3. exploration
	total := m.QuickRuns
	timeout := 20 * time.Minute
	if tier == "thorough" {
		total = m.ThoroughRuns
		timeout = 3 * time.Hour
	}
	if *runsOverride > 0 {
		total = *runsOverride
	}
	P := int64(workers)
	if total < P {
		P = total
	}
	results := make([]*procResult, P)
	var wg sync.WaitGroup
	for w := int64(0); w < P; w++ {
		wg.Add(1)
		go func(w int64) {
			defer wg.Done()
			cnt := total / P
			if w < total%P {
				cnt++
			}
			results[w] = runWorker(m, workerArgs{Prop: prop, Mode: "explore", Seed: seed, From: w, Stride: P, Count: cnt, Tier: tier, Known: knownPath}, timeout)
		}(w)
	}
	wg.Wait()
	// cold phase: one run per fresh process, so that lazily initialised package-level state of the
	// library is met cold by concurrent tasks (a warm process never writes it again)
	cold := m.ColdQuick
	if tier == "thorough" {
		cold = m.ColdThorough
	}
	if *runsOverride > 0 && cold > *runsOverride/10 {
		cold = *runsOverride / 10
	}
	if cold > 0 {
		coldRes := make([]*procResult, cold)
		sem := make(chan struct{}, workers)
		for i := int64(0); i < cold; i++ {
			wg.Add(1)
			sem <- struct{}{}
			go func(i int64) {
				defer wg.Done()
				defer func() { <-sem }()
				coldRes[i] = runWorker(m, workerArgs{Prop: prop, Mode: "explore", Seed: seed, From: total + i, Stride: 1, Count: 1, Tier: tier, Known: knownPath}, 5*time.Minute)
			}(i)
		}
		wg.Wait()
		results = append(results, coldRes...)
		total += cold
	}

	agg := &WorkerResult{Faults: map[string]int{}, Probes: map[string]int{}, KnownHits: map[string]int64{}}
	fpset := map[uint64]bool{}
	var viol *Violation
	var samples []interface{}
	for _, pr := range results {
		if r := pr.Res; r != nil {
			agg.Runs += r.Runs
			agg.Skipped += r.Skipped
			agg.Evals += r.Evals
			agg.Steps += r.Steps
			agg.Nontrivial += r.Nontrivial
			agg.Sites = r.Sites
			for k, v := range r.Faults {
				agg.Faults[k] += v
			}
			for k, v := range r.Probes {
				agg.Probes[k] += v
			}
			for k, v := range r.KnownHits {
				agg.KnownHits[k] += v
			}
			for _, f := range r.Fps {
				fpset[f] = true
			}
			if len(samples) < 4 && len(r.Samples) > 0 {
				samples = append(samples, r.Samples[0])
			}
			if r.Violation != nil && (viol == nil || r.Violation.Run < viol.Run) {
				viol = r.Violation
			}
		}
		c, k := classify(m, pr)
		if c == "harness" {
			trouble("worker died (exit %d %s):\n%s", pr.ExitCode, pr.Signal, firstLines(pr.Stderr, 60))
		}
		if c == "cross-bubble" {
			crossBubble = fmt.Sprintf("a worker stopped at run %d: %s", pr.CurRun, firstLines(pr.Stderr, 3))
			c = ""
		}
		if c != "" {
			// the process was killed by the run in flight: reconstruct it from (seed, run index)
			v := &Violation{Property: prop, Class: c, Key: k, Detail: firstLines(pr.Stderr, 60), Seed: seed, Run: pr.CurRun, Tier: tier, Stderr: firstLines(pr.Stderr, 80), Killed: true}
			v.Extra = map[string]string{"from_seed": "1"}
			if isKnown(known, c, k) == "" && (viol == nil || v.Run < viol.Run) {
				viol = v
			} else if id := isKnown(known, c, k); id != "" {
				agg.KnownHits[id]++
			}
		}
	}
	for id, n := range agg.KnownHits {
		if n > 0 && !knownStill[id] {
			for _, k := range known {
				if k.ID == id {
					line := fmt.Sprintf("KNOWN-FINDING: property=%s %s [%s; met %d times during exploration]", prop, k.What, k.ID, n)
					knownLines = append(knownLines, line)
					fmt.Println(line)
				}
			}
		}
	}

	if viol == nil && crossBubble != "" {
		trouble("the library does something the simulator cannot represent: it runs goroutines of its own (the simulator schedules caller tasks only), or it keeps a channel or timer created in one simulation run and uses it in a later one (many runs share a process, each in its own synctest bubble). No verdict: no violation was found in the runs that completed. %s", crossBubble)
	}
	exit := 0
	var replayPath string
	if viol != nil {
		vfile := filepath.Join(scratch, "viol.json")
		if viol.Extra != nil && viol.Extra["from_seed"] == "1" {
			// regenerate the trace of the killed run: a replay file with an empty trace and the
			// seed/run makes the worker regenerate; simpler: ask a worker to dump the trace.
			tr, ok := regenTrace(m, viol)
			if !ok {
				// the death may depend on what the worker's earlier runs left behind in package-level
				// variables of the library: replay them in the same process first
				viol.Prelude = preludeOf(viol.Run, total, P)
				if len(viol.Prelude) > 0 {
					tr, ok = regenTrace(m, viol)
				}
				if !ok {
					fmt.Fprintf(os.Stderr, "sup: run %d killed its worker (%s) but does not reproduce, neither alone nor after the worker's earlier runs - harness trouble\n%s\n", viol.Run, viol.Class, viol.Stderr)
					os.Exit(2)
				}
			}
			viol.Trace = tr
		}
		writeJSON(vfile, viol)
		inProc := !viol.Killed && (viol.Extra == nil || viol.Extra["kills"] != "1")
		var small *Violation
		if len(viol.Prelude) > 0 {
			small = viol // minimised below: the prelude, not the trace
		} else if inProc {
			pr := runWorker(m, workerArgs{Prop: prop, Mode: "shrink", File: vfile, Budget: 3000}, 10*time.Minute)
			if pr.ExitCode == 3 && pr.Res != nil && pr.Res.Violation != nil && pr.Res.Violation.Class == viol.Class {
				small = pr.Res.Violation
			} else {
				// the in-process shrinker died on a candidate (or lost the class): one process per candidate
				small = shrinkOutOfProcess(m, viol, 400)
			}
		} else if strings.HasSuffix(viol.Class, "/hang") {
			small = viol // every candidate would cost a watchdog period: a hang is reported unshrunk
		} else {
			small = shrinkOutOfProcess(m, viol, 400)
		}
		small.Property = prop
		h := small.Fp ^ (uint64(small.Run)+1)*0x9e3779b97f4a7c15
		for _, x := range small.Trace {
			h = (h ^ x) * 1099511628211
		}
		fpHex := fmt.Sprintf("%016x", h)
		os.MkdirAll(filepath.Join(verifDir, "replays"), 0o755)
		replayPath = filepath.Join(verifDir, "replays", fmt.Sprintf("%s-%d-%s.json", prop, seed, fpHex[:10]))
		small.ReplayCmd = fmt.Sprintf("%s/bin/check %s --replay %s", verifDir, prop, replayPath)
		writeJSON(replayPath, small)
		// confirm in fresh processes: two reproductions are required. A race whose occurrence depends on a
		// nondeterminism source inside the library that the simulator cannot own (sync.Pool's per-P caches
		// and its random drops under -race) may need several attempts; such a replay file is marked
		// "intermittent" and is accepted with one reproduction, because a race report is itself conclusive.
		confirm := func(path, class string, attempts int) (int, string) {
			ok := 0
			var lastDetail string
			for i := 0; i < attempts && ok < 2; i++ {
				c, _, d, pr := replayOnce(m, path)
				if c == class {
					ok++
					lastDetail = d
				} else {
					fmt.Fprintf(os.Stderr, "sup: confirm replay %d: got class %q (want %q), exit %d %s\n", i, c, class, pr.ExitCode, pr.Signal)
				}
			}
			return ok, lastDetail
		}
		attempts := 2
		isRace := strings.HasSuffix(small.Class, "/race")
		if isRace {
			attempts = 8
		}
		ok, lastDetail := confirm(replayPath, small.Class, attempts)
		if ok < 2 && small.Pin != "" {
			// the failing case may depend on what earlier cases of the same run left behind in the process:
			// replay the whole run instead of the pinned case only
			fmt.Fprintf(os.Stderr, "sup: pinned case reproduced %d times; replaying the whole run\n", ok)
			small.Pin = ""
			writeJSON(replayPath, small)
			ok, lastDetail = confirm(replayPath, small.Class, attempts)
		}
		if ok < 2 && small.Shrunk && len(viol.Trace) > 0 {
			// the minimised trace does not replay reliably: fall back to the original run
			fmt.Fprintf(os.Stderr, "sup: minimised trace reproduced %d times; falling back to the unshrunk run\n", ok)
			orig := *viol
			orig.Property = prop
			orig.ReplayCmd = small.ReplayCmd
			writeJSON(replayPath, &orig)
			small = &orig
			ok, lastDetail = confirm(replayPath, small.Class, attempts)
			if ok < 2 && small.Pin != "" {
				small.Pin = ""
				writeJSON(replayPath, small)
				ok, lastDetail = confirm(replayPath, small.Class, attempts)
			}
		}
		if ok < 2 && !(isRace && ok >= 1) && len(small.Prelude) == 0 && len(viol.Trace) > 0 {
			// last resort: the violation may depend on state that earlier runs of the exploring worker left in
			// package-level variables of the library - replay those runs in the same process first
			if pre := preludeOf(viol.Run, total, P); len(pre) > 0 {
				fmt.Fprintf(os.Stderr, "sup: run %d does not reproduce alone; replaying it after the worker's %d earlier runs\n", viol.Run, len(pre))
				orig := *viol
				orig.Property = prop
				orig.ReplayCmd = small.ReplayCmd
				orig.Prelude = pre
				writeJSON(replayPath, &orig)
				small = &orig
				ok, lastDetail = confirm(replayPath, small.Class, attempts)
			}
		}
		if len(small.Prelude) > 0 && (ok >= 2 || (isRace && ok >= 1)) {
			// minimise the prelude: the shortest suffix of the earlier runs that still reproduces, then drop
			// single runs of it
			full := small.Prelude
			try := func(pre []int64) bool {
				c := *small
				c.Prelude = pre
				f := filepath.Join(scratch, "prelude-candidate.json")
				writeJSON(f, &c)
				cl, _, _, _ := replayOnce(m, f)
				os.Remove(f)
				return cl == small.Class
			}
			best := full
			for k := 1; k < len(full); k *= 2 {
				if try(full[len(full)-k:]) {
					best = full[len(full)-k:]
					break
				}
			}
			if len(best) <= 16 {
				for i := 0; i < len(best) && len(best) > 1; {
					cand := append(append([]int64(nil), best[:i]...), best[i+1:]...)
					if try(cand) {
						best = cand
					} else {
						i++
					}
				}
			}
			small.Prelude = best
			if small.Extra == nil {
				small.Extra = map[string]string{}
			}
			small.Extra["prelude"] = fmt.Sprintf("the violation needs state that earlier runs of the same process left in package-level variables of the library: the replay executes runs %v (same seed) in one process before the failing run; minimised from the %d runs the exploring worker had executed", best, len(full))
			writeJSON(replayPath, small)
			ok2, d2 := confirm(replayPath, small.Class, attempts)
			if ok2 >= 2 || (isRace && ok2 >= 1) {
				ok, lastDetail = ok2, d2
			} else {
				small.Prelude = full
				writeJSON(replayPath, small)
			}
			lastDetail = small.Extra["prelude"] + "\n" + lastDetail
		}
		switch {
		case ok >= 2 || (isRace && ok >= 1):
			if ok < 2 {
				if small.Extra == nil {
					small.Extra = map[string]string{}
				}
				small.Extra["intermittent"] = "reproduced once in several replays: the race depends on library-internal nondeterminism (e.g. sync.Pool) outside the simulator's control"
				writeJSON(replayPath, small)
			}
			fmt.Printf("violation class=%s key=%s run=%d (trace %d draws, shrink calls %d)\n%s\n", small.Class, small.Key, small.Run, len(small.Trace), small.Calls, lastDetail)
			fmt.Printf("VIOLATION property=%s replay=%s\n", prop, replayPath)
			exit = 1
		default:
			os.Rename(replayPath, filepath.Join(scratch, "unconfirmed.json"))
			fmt.Fprintf(os.Stderr, "sup: violation %s of run %d did not reproduce from its replay file (%d reproductions) - harness trouble, not reported\n", small.Class, small.Run, ok)
			exit = 2
		}
	}

	// 4. evidence
	wall := time.Since(start).Seconds()
	distinct := len(fpset)
	var zeroProbes []string
	for _, p := range expectProbes[prop] {
		if agg.Probes[p] == 0 && agg.Faults[p] == 0 {
			zeroProbes = append(zeroProbes, p)
			fmt.Fprintf(os.Stderr, "sup: WARNING probe stuck at zero: %q\n", p)
		}
	}
	cov := map[string]interface{}{
		"evaluations":          maxI64(agg.Evals, agg.Runs),
		"evaluations_are":      m.EvalsAre,
		"distinct_nontrivial":  distinct,
		"rule":                 m.Rule,
		"samples":              samples,
		"runs":                 agg.Runs,
		"runs_skipped":         agg.Skipped,
		"runs_nontrivial":      agg.Nontrivial,
		"runs_per_hour":        int64(float64(agg.Runs) / wall * 3600),
		"seeds":                fmt.Sprintf("VERIF_SEED=%d, run indices 0..%d (one PRNG stream per (seed, index))", seed, total-1),
		"simulated_time_steps": agg.Steps,
		"faults_fired":         agg.Faults,
		"probes":               agg.Probes,
		"probes_at_zero":       zeroProbes,
		"instrumented_sites":   agg.Sites,
		"components_real":      m.Real,
		"components_simulated": m.Simulated,
		"determinism_recheck":  det,
		"known_findings":       knownLines,
		"exhaustive":           false,
	}
	ev := map[string]interface{}{
		"property_id": prop,
		"tier":        tier,
		"seed":        seed,
		"level":       m.Level,
		"coverage":    cov,
		"assumptions": m.Assumptions,
		"wall_s":      wall,
		"violations":  boolToInt(exit == 1),
	}
	if !*noEvidence {
		os.MkdirAll(filepath.Join(verifDir, "evidence"), 0o755)
		writeJSON(filepath.Join(verifDir, "evidence", prop+".json"), ev)
	}
	var pk []string
	for k, v := range agg.Probes {
		pk = append(pk, fmt.Sprintf("%s=%d", k, v))
	}
	sort.Strings(pk)
	fmt.Printf("runs=%d skipped=%d evaluations=%d distinct_nontrivial=%d steps=%d wall=%.1fs determinism=%s\n", agg.Runs, agg.Skipped, maxI64(agg.Evals, agg.Runs), distinct, agg.Steps, wall, det)
	fmt.Printf("faults fired: %v\nprobes: %s\n", agg.Faults, strings.Join(pk, "; "))
	os.Exit(exit)
}

func isKnown(known []KnownFinding, class, key string) string {
	for _, k := range known {
		if k.Class == class && (k.Key == key || k.Key == "*") {
			return k.ID
		}
	}
	return ""
}

// regenTrace obtains the draws of a run that killed its worker (so could not report them): the run
// is replayed by (seed, index) in a fresh process that writes every draw to a file at once. The
// replay must die the same way, otherwise the death is not a function of the run (harness trouble).
func regenTrace(m *propMeta, v *Violation) ([]uint64, bool) {
	nv := *v
	nv.Extra = map[string]string{"regen": "1"}
	f := filepath.Join(scratch, "regen.json")
	tf := filepath.Join(scratch, "regen.trace")
	writeJSON(f, &nv)
	pr := runWorker(m, workerArgs{Prop: prop, Mode: "replay", File: f, TraceOut: tf}, 3*time.Minute)
	c, _ := classify(m, pr)
	if c == "" && pr.Res != nil && pr.Res.Violation != nil {
		c = pr.Res.Violation.Class
	}
	if c != v.Class {
		fmt.Fprintf(os.Stderr, "sup: run %d killed its worker (%s) but replaying it by seed (prelude of %d runs) gave %q\n", v.Run, v.Class, len(v.Prelude), c)
		os.Remove(f)
		os.Remove(tf)
		return nil, false
	}
	b, _ := os.ReadFile(tf)
	var tr []uint64
	if len(b) >= 8 {
		n := int(binary.LittleEndian.Uint64(b))
		for i := 1; i <= n && 8*i+8 <= len(b); i++ {
			tr = append(tr, binary.LittleEndian.Uint64(b[8*i:]))
		}
	}
	os.Remove(f)
	os.Remove(tf)
	delete(v.Extra, "from_seed")
	return tr, true
}

// preludeOf lists the runs the exploring worker executed before run (worker w of P handles w, w+P, ...).
func preludeOf(run, total int64, P int64) []int64 {
	if run >= total {
		return nil // a cold-process run: nothing came before it
	}
	var out []int64
	for i := run % P; i < run; i += P {
		out = append(out, i)
	}
	return out
}

func maxI64(a, b int64) int64 {
	if a > b {
		return a
	}
	return b
}

func boolToInt(b bool) int {
	if b {
		return 1
	}
	return 0
}

// gomaxprocs: race workers run on one P so that library-internal per-P state (sync.Pool) is as
// deterministic as the runtime allows; the simulator never relies on real parallelism.
func gomaxprocs(m *propMeta) string {
	// one P for every worker: goroutine-to-P migration would otherwise change which allocation cache
	// (and hence which addresses) a task uses - address reuse after a collection must replay
	return "1"
}
