module verif/sup

go 1.23
